#!/bin/bash
# Builds the framework from files on disk only (offline) and primes the Go build cache.
set -e
cd "$(dirname "$0")"
export GOFLAGS=-mod=mod GOPROXY=off
unset GOSUMDB GOTOOLCHAIN
mkdir -p .build .work evidence replays
(cd tools/gendbproxy && go build -o ../../.build/gendbproxy .)
cp /repo/go.sum sim/go.sum
.build/gendbproxy /repo/server/backend/database/database.go sim/zz_dbproxy_gen.go sim
python3 tools/genc19.py /repo/test/complex/tree_concurrency_test.go sim/zz_c19_matrix_gen.go
python3 tools/genc13.py /repo/server/rpc/admin_server.go sim/zz_c13_gen.go
python3 tools/geninstr.py /repo .build/overlay
(cd sim && go test -c -vet=off -overlay "$PWD/../.build/overlay/overlay.json" -o ../.build/sim-setup.test .)
echo "setup ok"
