#!/usr/bin/python3
"""Regenerates /verif/MANIFEST.json from lib/plans.py (one source of truth)."""
import json
import os
import sys

sys.path.insert(0, os.path.dirname(os.path.abspath(__file__)))
import plans

VERIF = os.path.dirname(os.path.dirname(os.path.abspath(__file__)))

props = [json.loads(l) for l in open(os.path.join(VERIF, "properties.jsonl"))]
checks = []
na = []
for p in props:
    pid = p["id"]
    meta = plans.META.get(pid)
    if pid in plans.PLANS and meta:
        checks.append({
            "property_id": pid,
            "quick_cmd": "./check %s --tier quick" % pid,
            "thorough_cmd": "./check %s --tier thorough" % pid,
            "evidence_file": "evidence/%s.json" % pid,
            "replay_cmd_template": "./check %s --replay {path}" % pid,
            "engine": meta.get("engine", {"C16": "engine-B (step-level deterministic simulation)", "C17": "engine-B (step-level deterministic simulation)",
                                          "C04": "engine-A (message-level) and engine-B (step-level) deterministic simulation"}.get(pid, "engine-A (message-level deterministic simulation)")),
            "level_claimed": {"category": meta.get("category", "exploration"), "text": meta["level"], "design_ref": meta.get("design_ref", {"C04": "DESIGN.md §7 C04, §14, §17", "C07": "DESIGN.md §16", "C09": "DESIGN.md §15.2", "C13": "DESIGN.md §15.1",
                                                                "C16": "DESIGN.md §14, §17", "C17": "DESIGN.md §14", "C19": "DESIGN.md §7 C19, §18.3"}.get(pid, "DESIGN.md §7 " + pid + ", §13, §18"))},
            "level_note": meta["note"],
            "technique": meta.get("technique", "deterministic simulation with fault injection (seeded search over schedules and faults)"),
        })
    else:
        na.append({"property_id": pid, "reason": plans.NOT_CLAIMED.get(pid, "check not built yet in this session (work in progress; see DESIGN.md §12)")})

manifest = {
    "version": 1,
    "setup_cmd": "./setup.sh",
    "hooks": {
        "guard": "verif (build tag; no hook is committed in /repo: instrumentation is generated at check time)",
        "enable": "none needed in /repo: the storage proxy is generated from the tree's Database interface at build time and placed in the exported Backend.DB field; everything else is a build overlay (go test -c -overlay, tools/geninstr.py) over generated copies of the CURRENT pkg/locker/locker.go, pkg/cmap/cmap.go, pkg/cache/lru_with_stats.go, server/backend/pubsub/*.go, server/backend/database/memory/database.go, api/types/id.go plus the overlay-only package pkg/zzsimrt (hook variables: lock/yield/select-order/map-order/id/shard); with nil hooks every rewritten line behaves like the original; nothing is written to /repo",
        "baseline_off_cmd": "cd /repo && GOFLAGS=-mod=mod go test -vet=off -count=1 -timeout 25m ./...",
        "source_commits": [],
        "add_only": True,
    },
    "engines": [
        {"name": "engine-A", "path": "sim/", "serves_properties": [c["property_id"] for c in checks if c["property_id"] not in ("C16", "C17")],
         "kind_free_text": "message-level deterministic simulator: real server handlers + real Go client + real CRDTs in one testing/synctest bubble; seeded scheduler decides every client call, message fault (loss, stale duplicate, corruption), storage fault, crash, background task and clock advance; one RPC is one atomic step"},
        {"name": "engine-B", "path": "sim/engineb.go + tools/geninstr.py (build overlay)", "serves_properties": ["C04", "C16", "C17"],
         "kind_free_text": "step-level deterministic simulator: several requests in flight, every task on its own goroutine, exactly one runs at a time and yields at every storage call, every named-lock operation and every instrumented mutex; a seeded scheduler with a model of the named RW locks (announced writers) decides who continues, when simulated time passes, when a request is duplicated in flight and when the server process dies; the schedule is recorded in the trace and followed on replay"},
    ],
    "checks": checks,
    "not_applicable": na,
    "notes": "All checks: ./check <id> [--tier quick|thorough] [--replay file]; exit 0 held / 1 VIOLATION / 2 build or infrastructure trouble. Known findings: known_findings.json.",
}
with open(os.path.join(VERIF, "MANIFEST.json"), "w") as f:
    json.dump(manifest, f, indent=1)
print("MANIFEST.json: %d checks, %d not claimed" % (len(checks), len(na)))
