#!/usr/bin/python3
"""Prints the seeded-change matrix (markdown) from seeded/*/meta.json."""
import json, os
VERIF = os.path.dirname(os.path.dirname(os.path.abspath(__file__)))
rows = []
for d in sorted(os.listdir(os.path.join(VERIF, "seeded"))):
    mp = os.path.join(VERIF, "seeded", d, "meta.json")
    if not os.path.exists(mp):
        continue
    m = json.load(open(mp))
    summ = m.get("summary", "").split(":")[0][:70]
    files = ", ".join(os.path.basename(f) for f in m.get("files", []))[:60]
    runs = m.get("checks_run", [])
    caught = [r for r in runs if r.get("caught")]
    missed = [r for r in runs if not r.get("caught") and r.get("check")]
    c = "; ".join("%s: %s" % (r["check"], (r["result"] or "").replace("oracle=", "").replace("class=", "")[:90]) for r in caught) or "—"
    ms = "; ".join("%s" % r["check"] for r in missed)
    rows.append("| %s | %s | %s | %s |" % (d, files, c, ms or ""))
print("| change | file | caught by (first violation) | also run, not caught |")
print("|---|---|---|---|")
print("\n".join(rows))
