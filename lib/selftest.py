#!/usr/bin/python3
"""Determinism self-test: the same seeds are executed in several processes at
several GOMAXPROCS values; the full event logs (steps, outcomes, every
replica's state after every step) must hash identically.
usage: selftest.py <property> [runs] [seed]"""
import json
import os
import subprocess
import sys

sys.path.insert(0, os.path.dirname(os.path.abspath(__file__)))
import plans

VERIF = os.path.dirname(os.path.dirname(os.path.abspath(__file__)))
prop = sys.argv[1]
n = int(sys.argv[2]) if len(sys.argv) > 2 else 60
seed = int(sys.argv[3]) if len(sys.argv) > 3 else 777
subprocess.run([os.path.join(VERIF, "setup.sh")], check=True, stdout=subprocess.DEVNULL)
binary = os.path.join(VERIF, ".build", "sim-setup.test")
plan = plans.plan_for(prop, "quick")
if os.environ.get("SELFTEST_PROFILES"):
    plan["profiles"] = os.environ["SELFTEST_PROFILES"].split(",")
work = os.path.join(VERIF, ".work", "selftest-%s" % prop)
os.makedirs(work, exist_ok=True)
procs = []
variants = [(1, "a"), (1, "b"), (4, "a"), (4, "b"), (16, "a"), (16, "b"), (2, "a"), (8, "a")]
for gmp, tag in variants:
    out = os.path.join(work, "out-%d%s.jsonl" % (gmp, tag))
    spec = {"profiles": plan["profiles"], "seed_base": seed, "start": 0, "count": n, "out": out, "keep_log": True, "samples": 0, "minimise": False}
    sp = os.path.join(work, "spec-%d%s.json" % (gmp, tag))
    json.dump(spec, open(sp, "w"))
    env = dict(os.environ, VERIF_SPEC=sp, GOMAXPROCS=str(gmp))
    procs.append((gmp, tag, out, subprocess.Popen([binary, "-test.run", "^TestWorker$", "-test.timeout", "1h"], env=env, stdout=subprocess.DEVNULL, stderr=subprocess.DEVNULL)))
res = {}
for gmp, tag, out, p in procs:
    p.wait()
    rows = [json.loads(l) for l in open(out)]
    res[(gmp, tag)] = rows
ref = res[variants[0]]
bad = 0
for key, rows in res.items():
    if len(rows) != len(ref):
        print("variant %s: %d rows vs %d" % (key, len(rows), len(ref)))
        bad += 1
        continue
    for a, b in zip(ref, rows):
        if a["log_hash"] != b["log_hash"] or a["trace_hash"] != b["trace_hash"]:
            bad += 1
            print("DIVERGENCE index %d variant %s: %s/%s vs %s/%s" % (a["index"], key, a["trace_hash"], a["log_hash"], b["trace_hash"], b["log_hash"]))
            la, lb = a.get("log_lines") or [], b.get("log_lines") or []
            for i, (x, y) in enumerate(zip(la, lb)):
                if x != y:
                    print("  first differing log line %d:\n   %s\n   %s" % (i, x[:400], y[:400]))
                    break
            break
print("selftest %s: %d runs x %d variants, divergences=%d" % (prop, len(ref), len(variants), bad))
sys.exit(1 if bad else 0)
