#!/bin/bash
# try_mutant.sh <patch.diff> <prop> [extra check args] : applies the patch to /repo, runs the check, reverts.
# NOTE: reverts with `git checkout -- .` - never run it with uncommitted edits in /repo.
V=$(cd "$(dirname "$0")/.." && pwd)
P=$1; shift
PROP=$1; shift
git -C /repo apply $P || { echo "patch does not apply"; exit 3; }
cd $V && ./check $PROP --no-evidence "$@" 2>&1 | grep -v "^    " | cut -c1-300 | tail -8
RC=${PIPESTATUS[0]}
git -C /repo checkout -- .
echo "check rc=$RC"
