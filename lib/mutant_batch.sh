#!/bin/bash
# mutant_batch.sh < "<mutant> <property> <runs>" lines : results appended to .work/mutants.tsv
V=$(cd "$(dirname "$0")/.." && pwd)
cd $V; mkdir -p .work
while read m p runs; do
  [ -z "$m" ] && continue
  out=$(lib/try_mutant.sh $V/seeded/$m/patch.diff $p --runs $runs 2>&1)
  rc=$(echo "$out" | grep -o "check rc=[0-9]*" | tail -1)
  cls=$(echo "$out" | grep "oracle=" | head -1 | sed 's/seed=.*//' | cut -c1-160)
  echo -e "$m\t$p\t$rc\t$cls" | tee -a .work/mutants.tsv
done
