#!/bin/bash
# mutant_batch.sh: runs "<mutant> <property> <runs>" triples, appends results to .work/mutants.tsv
cd /verif
while read m p runs; do
  [ -z "$m" ] && continue
  out=$(lib/try_mutant.sh /verif/seeded/$m/patch.diff $p --runs $runs 2>&1)
  rc=$(echo "$out" | grep -o "check rc=[0-9]*" | tail -1)
  cls=$(echo "$out" | grep "oracle=" | head -1 | sed 's/seed=.*//' | cut -c1-160)
  echo -e "$m\t$p\t$rc\t$cls" >> .work/mutants.tsv
done
