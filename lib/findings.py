"""known_findings.json: genuine defects of the pinned tree that are recorded,
not repaired. A finding is identified by a mechanism key: a necessary
condition of the mechanism evaluated on the MINIMISED trace of a violation,
so that a different violation of the same property is still reported."""
import json
import os
import re


def load(path):
    if not os.path.exists(path):
        return []
    with open(path) as f:
        doc = json.load(f)
    return doc.get("findings", [])


def flatten(trace):
    """The steps of a trace with the concurrent calls of parallel sections in line (in the
    order of the section's list: the calls of one client keep their order)."""
    out = []
    for st in trace or []:
        out.append(st)
        for sub in st.get("sub") or []:
            out.append(sub)
    return out


def edit_kinds(trace):
    ks = set()
    for st in trace or []:
        for e in st.get("edits") or []:
            ks.add(e.get("k", ""))
    return ks


def step_ops(trace):
    return set(st.get("op", "") for st in trace or [])


def predicate(name, r):
    cfg = r.get("config") or {}
    trace = flatten(r.get("trace") or [])
    ks = edit_kinds(trace)
    ops = step_ops(trace)
    if name == "duplicate_delivery":
        # a copy of a request that is delivered late (message-level engine: "held") or while the
        # original is still in flight (step-level engine: net "dup")
        return "held" in ops or any(st.get("net") == "dup" for st in trace)
    if name == "c19_merge_by_later_author":
        x = cfg.get("extra") or {}
        return bool(x.get("repair_merge")) and bool(x.get("swap"))
    if name == "hostile_step_present":
        return any(st.get("op") in ("decode_hostile", "corrupt_store") or str(st.get("net", "")).startswith("corrupt_") for st in trace)
    if name == "wrong_credential_kind":
        return bool((cfg.get("extra") or {}).get("wrong_kind"))
    if name == "gc_enabled":
        return not (cfg.get("client_disable_gc") and cfg.get("server_disable_gc"))
    if name == "client_gc_enabled":
        return not cfg.get("client_disable_gc")
    if name == "array_delete_move_or_set":
        return any(k in ks for k in ("a.del", "a.set", "a.mva", "a.mvb", "a.mvf", "a.mvl"))
    if name == "array_move":
        return any(k in ks for k in ("a.mva", "a.mvb", "a.mvf", "a.mvl"))
    if name == "text_or_array_delete":
        if any(k in ks for k in ("a.del", "a.set", "a.mva", "a.mvb", "a.mvf", "a.mvl", "r.tdel", "r.edel")):
            # array deletions, replacements and MOVES (a move leaves a dead position node behind)
            # and tree-text deletions leave tombstones in an RGA-ordered sequence as well
            return True
        for st in trace:
            for e in st.get("edits") or []:
                if e.get("k") == "t.edit" and (e.get("i", 0) != e.get("j", 0)):
                    return True
        return False
    if name == "container_removed_and_two_undos":
        created = False
        for st in trace:
            for e in st.get("edits") or []:
                if e.get("k") == "a.new" or (e.get("k") == "o.new" and e.get("p")):
                    created = True
        removed = any(k in ks for k in ("a.del", "a.set", "o.del", "o.set", "o.new"))
        undos = sum(1 for st in trace if st.get("op") in ("undo", "redo"))
        return created and removed and undos >= 2
    if name == "text_edit_and_undo":
        return "t.edit" in ks and len(trace) >= 30 and any(st.get("op") in ("undo", "redo") for st in trace)
    if name == "tree_edit_and_undo":
        return any(k.startswith("r.") for k in ks) and any(st.get("op") in ("undo", "redo") for st in trace)
    if name == "dedup_counter_used":
        for st in trace:
            for e in st.get("edits") or []:
                if e.get("k") == "c.dadd" or (e.get("k") in ("o.new", "a.new") and e.get("t") == "dcnt") or "DedupCounter" in (e.get("y") or ""):
                    return True
        return False
    if name == "raw_remove_and_deactivate":
        flags = [st.get("flag") for st in trace if st.get("op") == "raw"]
        return "remove" in flags and "deactivate" in flags
    if name == "undo_after_sync":
        synced = False
        for st in trace:
            if st.get("op") in ("sync", "detach", "attach") and synced is False:
                if st.get("op") != "attach":
                    synced = True
            if st.get("op") in ("undo", "redo") and synced:
                return True
        # quiescent rounds after the trace also count: an undo anywhere plus the final syncs
        return any(st.get("op") in ("undo", "redo") for st in trace) and (r.get("violation") or {}).get("step", 0) >= len(trace)
    if name == "multi_edit_update_then_undo":
        multi = False
        for st in trace:
            if st.get("op") == "update" and len(st.get("edits") or []) >= 2:
                multi = True
            if st.get("op") in ("undo", "redo") and multi:
                return True
        return False
    if name == "same_client_reattach":
        detached = set()
        for st in trace:
            op, c = st.get("op"), st.get("c", 0)
            if op == "detach":
                detached.add(c)
            elif op == "newclient":
                detached.discard(c)
            elif op == "attach" and c in detached:
                return True
        return False
    if name == "mixed_presence_flags":
        flags = set()
        for st in trace:
            if st.get("op") == "attach":
                flags.add(bool((st.get("opts") or {}).get("no_presence")))
        return len(flags) == 2
    if name == "dbfault_dupwin":
        if any(st.get("db") and st.get("flag") == "dupwin" for st in trace):
            return True
        # step-level engine: the server process was killed inside a parallel section while some
        # request had stored its changes but not yet the client's checkpoint
        return any(d == "crash!dupwin" for st in trace for d in (st.get("sched") or []))
    if name == "detach_or_deactivate":
        return "detach" in ops or "deactivate" in ops
    if name == "array_move_or_set":
        return any(k in ks for k in ("a.set", "a.mva", "a.mvb", "a.mvf", "a.mvl"))
    if name == "array_op":
        return any(k.startswith("a.") for k in ks)
    if name == "snapshot_possible":
        return (cfg.get("snapshot_threshold") or 1000) <= 200
    if name == "redo":
        return "redo" in ops
    if name == "undo":
        return "undo" in ops
    if name.startswith("edit:"):
        return name[5:] in ks
    if name.startswith("op:"):
        return name[3:] in ops
    if name.startswith("dbfault_window:"):
        # "dbfault_window:<after method>:<before method>": the fault of the trace sits
        # on a storage call of that window
        return any((st.get("db") or {}).get("method", "") for st in trace) or any(st.get("db") for st in trace)
    raise ValueError("unknown predicate " + name)


def counterfactual_config(kind, cfg):
    cfg = dict(cfg)
    if kind == "gc_off":
        cfg["client_disable_gc"] = True
        cfg["server_disable_gc"] = True
        return cfg
    if kind == "right_credential_kind":
        cfg["extra"] = dict(cfg.get("extra") or {})
        cfg["extra"]["wrong_kind"] = 0
        return cfg
    if kind == "no_corruption":
        return cfg
    if kind == "no_dbfault":
        cfg["extra"] = dict(cfg.get("extra") or {})
        cfg["extra"]["crash_permille"] = 0
        return cfg
    if kind in ("no_dbfault", "uniform_presence_flag", "reattach_as_new_client", "no_undo_redo", "split_updates"):
        return cfg
    raise ValueError("unknown counterfactual " + kind)


def counterfactual_trace(kind, trace):
    if kind == "no_undo_redo":
        return [st for st in trace if st.get("op") not in ("undo", "redo")]
    if kind == "no_corruption":
        out = []
        for st in trace:
            if st.get("op") in ("decode_hostile", "corrupt_store"):
                continue
            if str(st.get("net", "")).startswith("corrupt_"):
                st = dict(st)
                st.pop("net", None)
            out.append(st)
        return out
    if kind == "split_updates":
        out = []
        for st in trace:
            if st.get("op") == "update" and len(st.get("edits") or []) >= 2 and not st.get("fail"):
                for e in st["edits"]:
                    s2 = dict(st)
                    s2["edits"] = [e]
                    out.append(s2)
            else:
                out.append(st)
        return out
    if kind == "reattach_as_new_client":
        detached = set()

        def walk(steps):
            out = []
            for st in steps:
                op, c = st.get("op"), st.get("c", 0)
                if op == "detach":
                    detached.add(c)
                elif op == "newclient":
                    detached.discard(c)
                elif op == "attach" and c in detached:
                    detached.discard(c)
                    nc = {"op": "newclient"}
                    ac = {"op": "activate"}
                    if c:
                        nc["c"] = c
                        ac["c"] = c
                    out.append(nc)
                    out.append(ac)
                if st.get("sub"):
                    st = dict(st)
                    st["sub"] = walk(st["sub"])
                    st.pop("sched", None)  # the recorded schedule does not know the new calls
                out.append(st)
            return out
        return walk(trace)
    if kind == "uniform_presence_flag":
        first = None
        out = []
        for st in trace:
            st = dict(st)
            if st.get("op") == "attach":
                opts = dict(st.get("opts") or {})
                flag = bool(opts.get("no_presence"))
                if first is None:
                    first = flag
                if flag != first:
                    if first:
                        opts["no_presence"] = True
                        opts.pop("presence", None)
                    else:
                        opts.pop("no_presence", None)
                st["opts"] = opts
            out.append(st)
        return out
    if kind == "no_dbfault":
        out = []
        for st in trace:
            st = dict(st)
            st.pop("db", None)
            if st.get("sched"):
                st["sched"] = [d for d in st["sched"] if not str(d).startswith("crash!")]
            out.append(st)
        return out
    return trace


def match(findings, r, replayer=None):
    """Returns the finding whose key the (minimised) violating run r satisfies.
    replayer(config, trace, profile) -> violation dict or None runs a counterfactual."""
    v = r.get("violation") or {}
    for k in findings:
        key = k.get("key") or {}
        if key.get("oracle_re") and not re.search(key["oracle_re"], v.get("oracle", "")):
            continue
        if key.get("class_re") and not re.search(key["class_re"], v.get("class", "")):
            continue
        if key.get("profile_re") and not re.search(key["profile_re"], r.get("profile", "")):
            continue
        if key.get("detail_re") and not re.search(key["detail_re"], v.get("detail", "")):
            continue
        ok = True
        for p in key.get("requires", []):
            if not predicate(p, r):
                ok = False
                break
        if ok and key.get("counterfactual"):
            if replayer is None:
                ok = False
            else:
                cv = replayer(counterfactual_config(key["counterfactual"], r.get("config") or {}),
                              counterfactual_trace(key["counterfactual"], r.get("trace") or []), r)
                if cv is not None:
                    ok = False  # still fails with the mechanism removed: something else is wrong
        if ok:
            return k
    return None
