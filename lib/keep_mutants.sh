#!/bin/bash
# keep_mutants.sh <PROP> : confirms /tmp/mut/<PROP>/out/<i> and copies confirmed ones to /verif/seeded/<PROP>-<i>/
P=$1
for d in /tmp/mut/$P/out/*/; do
  i=$(basename $d)
  [ -f $d/patch.diff ] || continue
  out=$(/verif/lib/confirm_mutant.sh $d 2>&1 | tail -4)
  if echo "$out" | grep -q "^CONFIRMED"; then
    dst=/verif/seeded/$P-$i; mkdir -p $dst
    cp $d/patch.diff $d/meta.json $d/demo_path.txt $dst/
    for f in $d/*_test.go; do cp $f $dst/$(basename $f).txt; done
    echo "$P-$i confirmed"
  else
    echo "$P-$i NOT confirmed: $out"
  fi
done
