"""Per-property run plans (which profiles, how many runs per tier) and the
evidence writer."""
import json

# runs are sized for ~60-90 s (quick) / 10-20 min (thorough) on 16 cores
PLANS = {
    "C01": {"profiles": ["c01_faultfree", "c01_lossy"], "quick": 6000, "thorough": 120000},
    "C03": {"profiles": ["c03_gc_twin"], "quick": 800, "thorough": 40000},
    "C04": {"profiles": ["c04_sequential", "c04_sequential", "c04_parallel"], "quick": 5400, "thorough": 100000},
    "C07": {"profiles": ["c07_clean_twin"], "quick": 4000, "thorough": 100000},
    "C09": {"profiles": ["c09_lossless", "c09_lossless", "c09_hostile"], "quick": 3300, "thorough": 100000, "min_candidates": 300,
            "min_once_prefixes": ["panicked:", "snapshot_round_trip_changes_garbage_len"]},
    "C13": {"profiles": ["c13_intruder", "c13_intruder", "c13_keys"], "quick": 4500, "thorough": 100000},
    "C16": {"profiles": ["c16_parallel"], "quick": 10000, "thorough": 300000},
    "C17": {"profiles": ["c17_pubsub"], "quick": 20000, "thorough": 1000000},
    "C05": {"profiles": ["c05_fault_sweep"], "quick": 3000, "thorough": 100000},
    "C18": {"profiles": ["c18_yson"], "quick": 1200, "thorough": 80000},
    "C10": {"profiles": ["c10_compaction"], "quick": 3000, "thorough": 60000},
    "C11": {"profiles": ["c11_lifecycle"], "quick": 8000, "thorough": 200000},
    "C19": {"profiles": ["c19_matrix"], "quick": 12800, "thorough": 25600, "enumerate": True},
    "C20": {"profiles": ["c20_change_cache", "c20_snapshot_cache"], "quick": 6000, "thorough": 120000},
    "C14": {"profiles": ["c14_undo_exact", "c14_undo_approx"], "quick": 5000, "thorough": 100000},
    "C12": {"profiles": ["c12_presence", "c12_presenceless"], "quick": 1000, "thorough": 100000},
    "C08": {"profiles": ["c08_atomic_update"], "quick": 5000, "thorough": 100000},
    "C06": {"profiles": ["c06_clocks", "c06_clocks", "c06_gcfree"], "quick": 5000, "thorough": 100000},
    "C02": {"profiles": ["c02_snapshots", "c02_snapshots_faults"], "quick": 5000, "thorough": 100000},
}

LEVEL = {}

REAL_STUB = {
    "real": [
        "CRDTs, operations, change/ID/version vectors, document.Document, history, presence, yson, schema validator",
        "wire encoding (converter, protobuf), snapshot bytes, stored operation bytes, snapshot compression",
        "client.Client in manual sync mode (Activate/Attach/Sync/Detach/Remove/Deactivate)",
        "Connect handlers of the Yorkie/Cluster services with all interceptors, invoked through ServeHTTP",
        "packs (PushPull, snapshots, compaction), clients, documents, housekeeping task bodies",
        "memory.DB (go-memdb) behind the generated fault/park proxy; named lockers, snapshot LRU cache, background",
        "step-level engine (C16, C17, c04_parallel): same real code; pkg/locker methods wrapped and the sync mutexes of pubsub/cmap turned into TryLock-spin-yield through a go build overlay (nothing written to /repo, behaviour unchanged when the hooks are nil)",
    ],
    "stub": [
        "TCP/HTTP2/TLS (in-process RoundTripper = simulated network)",
        "MongoDB backend (not run)", "gocron scheduling, membership lease, Kafka, StarRocks, webhooks (not exercised)",
        "clocks/timers/tickers: testing/synctest bubble clock",
    ],
}


def plan_for(prop, tier):
    p = PLANS.get(prop)
    if p is None:
        return None
    out = {"profiles": list(p["profiles"]), "runs": p[tier], "chunk": p.get("chunk", 250)}
    out["budget_s"] = p.get("budget_" + tier, 150 if tier == "quick" else 1800)
    out["min_budget_s"] = 300  # backstop only; the bound that counts is the number of candidates
    out["min_candidates"] = 1000 if tier == "quick" else 3000
    for k in ("gomaxprocs", "workers", "ulimit_kb", "min_candidates", "min_once_prefixes"):
        if k in p:
            out[k] = p[k]
    return out


def evidence(prop, tier, seed, plan, results, infra, unlisted, known_hits, wall, stopped_early):
    evals = len(results)
    distinct = set()
    faults = {}
    probes = {}
    sim_ms = 0
    steps = 0
    samples = []
    per_profile = {}
    for r in results:
        if r.get("nontrivial") and not r.get("violation"):
            distinct.add(r.get("log_hash") or r.get("trace_hash"))
        for k, v in (r.get("faults") or {}).items():
            faults[k] = faults.get(k, 0) + v
        for k, v in (r.get("probes") or {}).items():
            if k.startswith("dbfault:"):
                continue
            probes[k] = probes.get(k, 0) + v
        sim_ms += r.get("sim_ms", 0)
        steps += r.get("steps", 0)
        per_profile[r.get("profile")] = per_profile.get(r.get("profile"), 0) + 1
        if r.get("trace") and not r.get("violation") and len(samples) < 2:
            tr = r["trace"]
            samples.append({"profile": r.get("profile"), "seed": r.get("seed"), "config": r.get("config"),
                            "steps": tr[:40], "steps_total": len(tr), "outcomes": (r.get("outs") or [])[:40]})
    if not samples:
        samples.append({"note": "no non-trivial passing run kept a trace in this batch"})
    ev = {
        "property_id": prop,
        "tier": tier,
        "seed": seed,
        "level": META.get(prop, {}).get("category", "exploration"),
        "wall_s": round(wall, 1),
        "violations": len(unlisted),
        "coverage": {
            "evaluations": evals,
            "distinct_nontrivial": len(distinct),
            "rule": ("each evaluation is one complete simulated run (own bubble, own server, own memdb) generated from "
                     "mix(VERIF_SEED, run index); distinct = distinct hash of the full event log (steps, outcomes, storage-call counts); "
                     "non-trivial = the profile's rule (for editing sessions: >=2 edits applied, >=1 remote change applied on a replica, "
                     ">=2 replicas compared at quiescence)"),
            "samples": samples,
            "runs_per_profile": per_profile,
            "runs_planned": plan["runs"],
            "stopped_early_by_wall_budget": bool(stopped_early),
            "runs_per_hour": int(evals / wall * 3600) if wall > 0 else 0,
            "simulated_seconds_covered": round(sim_ms / 1000.0, 1),
            "steps_executed": steps,
            "faults_fired": faults,
            "reach_probes": probes,
            "known_findings_met_by_search": {k: len(v) for k, v in known_hits.items()},
            "components": REAL_STUB,
            "infra_failures": len(infra),
        },
        "assumptions": [
            "memdb stands in for MongoDB; only what reached storage survives a simulated crash",
            "one RPC is one atomic step in the message-level engine; in the step-level engine (profiles *_parallel, c17_pubsub) requests interleave at storage calls, named-lock operations and instrumented mutexes, and are atomic in between",
            "sampling, not enumeration: a clean batch is evidence, not proof",
        ],
    }
    return ev

# per-property text for MANIFEST.json
_common = "memdb instead of MongoDB; one RPC is one atomic step in the message-level engine; known findings (known_findings.json) are recognised only on the MINIMISED trace and, where stated, after a counterfactual replay with the mechanism removed; sampling, not proof"
META = {
    "C01": {"level": "Seeded exploration of complete multi-client editing sessions (2-5 real clients against the real server, 20-200 steps, whole public editing alphabet, offline stretches, re-attach, rejoin, vanish) with and without message faults (lost request/response, delayed stale duplicates). Oracles: byte-identical Marshal() of all replicas and of the server's rebuilt document after bounded quiescence (3 rounds), equal content whenever two replicas hold equal version vectors, no un-faulted call fails, clone == root.", "note": _common},
    "C02": {"level": "Same sessions under snapshot thresholds/intervals {1,2,3,5,10,500}, cache size 1/10, purges, late attachers, starved/lazy/eager background snapshot writer, server restarts, lost messages. Oracles: snapshot-fed == change-fed replicas after quiescence and at equal vectors, server rebuild at head and at an earlier seq with warm cache == after purge == replicas with the same vector; further edits on snapshot-fed replicas keep converging.", "note": _common},
    "C03": {"level": "Delete-heavy sessions with GC on, long offline stretches, housekeeping deactivation after clock jumps; every run is executed a second time from its recorded step list in a world with GC disabled everywhere: step outcomes and every replica's visible content at quiescence must be equal (GC twin), no sync / rebuild may fail.", "note": _common + "; three GC findings of the pinned tree are listed as known"},
    "C04": {"level": "Both halves of the quantifier. Sequential schedules (message-level engine): every pull is compared on the wire with the stored log: exactly the foreign changes of (request checkpoint, response checkpoint], in order, once, no echo of own changes, checkpoints monotone and <= head; log shape serverSeq 1..N and (actor, clientSeq) unique per attachment; under lost/duplicated/stale requests and push-only syncs. Parallel schedules (step-level engine, profile c04_parallel): all attached clients sync / push-only sync / detach+re-attach at the same time, some requests are delivered twice with both copies in flight, compaction attempts run alongside, the server process may die at any yield point of the section (restart, retries); requests interleave at every storage call and every named-lock operation under a seeded scheduler; the same wire oracle (own changes recognised by author), conservation of every issued increment/key/token, log shape and convergence are evaluated on the result.", "note": _common + "; inside the step-level engine a request is atomic between two yield points (storage calls, named-lock operations): interleavings of pure in-memory code are not explored"},
    "C05": {"category": "fault_enumeration", "level": "For a chosen pushing sync of each generated session exactly one fault is placed, enumerated by run index over every storage call that request makes (the call list is learnt from the tree at run time) x {error before, error after, crash before, crash after} plus {request lost, response lost, stale duplicate}; the client retries the identical pack, optionally after further edits. Oracles: conservation (every issued increment counted once, every key present, every appended token exactly once in order on every replica), each (actor, clientSeq) stored once, serverSeq gap-free, replicas and server converge, the un-faulted retry succeeds.", "note": _common + "; the window between CreateChangeInfos and UpdateClientInfoAfterPushPull is a known finding (upstream's own skipped test)"},
    "C06": {"level": "Wire monitor on every pushed change and every response of C01/C03-style sessions (plus GC-free documents with wire opt-out attachments): vv[self]==lamport, vv covers and lamport exceeds everything the replica had applied before, author timestamps grow, (lamport, actor) unique; every minimum vector handed out is compared, actor by actor, with the REAL document of every client the server still counts as attached (including vanished ones).", "note": _common + "; presence-only changes carry no clock by design and are exempt"},
    "C08": {"level": "Sessions in which Update callbacks fail after j<=k edits (returned error, panic), exceed a size limit or break schema rules, interleaved with remote packs, snapshots and GC: content, pending changes, checkpoint, version vector and undo history are compared before/after every failed Update; Root() == Marshal() after every step.", "note": _common + "; undo/redo inside these sessions is left to C14"},
    "C10": {"level": "Sessions with forced and unforced compaction (admin path through the real cluster handler, housekeeping body), restarts, re-attachment: content before == server rebuild after; unforced compaction of an attached document must change nothing; epoch strictly grows; a stale client's sync must be refused with epoch mismatch and store nothing (also after a push-only sync), its detach succeeds, a fresh attach equals a cache-independent rebuild from storage.", "note": _common},
    "C11": {"level": "Raw protocol clients (generated Connect client, hand-built packs from real Documents) issue Activate/Attach/PushPull/Detach/Remove/Deactivate in any state for 2 clients x 2 documents; a reference state machine written from docs/design/document-client-lifecycle.md predicts accept/reject; rejected calls must not grow any log; after detach/deactivate no stored version vector may lower the minimum; removed documents answer with the removed flag and store nothing.", "note": _common + "; calls on a document key after one of its documents was removed are only checked for 'stores nothing' (the document does not specify them)"},
    "C12": {"level": "Presence-heavy sessions with snapshot pulls, re-attach, rejoin, vanish, housekeeping deactivation, on presence-enabled and presenceless documents, with late attachers that disagree with the document's setting: AllPresences() equal on all replicas and keyed by exactly the clients the server counts as attached; presenceless: no presence in any stored row, response or snapshot.", "note": _common},
    "C14": {"level": "Local sessions of one client (the property's quantifier: no remote changes) with single-edit Updates from the content alphabet plus approximate kinds, random well-nested Undo/Redo: a content stack predicts the canonical content (text as attribute runs, trees as XML) after every Undo/Redo of an exact kind; Undo/Redo never fail; clone == root; the final synchronisation succeeds.", "note": _common + "; five undo defects of the pinned tree are listed as known; undo after synchronisation/GC is outside this check (see C15)"},
    "C07": {"level": "Differential check inside C01/C02-style sessions (remote changes, snapshot-fed rebuilds with thresholds 2-500, GC on or entirely off, long offline stretches, moves, splits): before EVERY local Update of a replica a twin is built - a brand-new Document that receives only the replica's visible content (YSON export/import; no tombstones, no split nodes, no dead array slots, no history) - and the same editing calls (same paths, same indices, resolved by the same executor against the visible state: object set/delete/create, array add/insert/delete/set/move*, text edit/style with UTF-16 and surrogate pairs, counters, tree insert/delete/style by index and by path) are applied to both; afterwards the canonical visible content (text as attribute runs, trees as XML) must be equal, and a call that succeeded on the replica must succeed on the twin. Plus plain lookups after every update and sync: Array.Len() == number of visible elements, Get(i) walks them in order, text length == sum of visible runs (UTF-16), tree Len() == size computed from its XML.", "note": _common + "; the reference is the implementation itself on a tombstone-free reconstruction, NOT an independent re-implementation of text/array/tree semantics: a defect that also shows on clean structures is not seen (the property's rationale leaves clean structures to the unit tests); the dedup counter is excluded (its state does not survive the export: finding of C18)"},
    "C09": {"level": "LOSSLESS half (profile c09_lossless, C01-style sessions with snapshots, GC, lost messages): every pack that crosses the simulated wire is decoded and re-encoded and must come out equal (proto.Equal); every change the server stored must decode (ChangeInfo.ToChange) to the change that was pushed; at every sync point every replica's document goes through SnapshotToBytes/BytesToSnapshot and the result must have the same content, the same GarbageLen and the same LOGICAL STRUCTURE - every node of every text, tree, array and object with identity, tombstone ticket, insertion links (insPrev/insNext, InsPrevID/InsNextID), merge stamps and attribute history, read by reflection over the CRDT node types (index structures and caches excluded), so a field the encoder forgets is a difference - and a second round trip must be a fixed point. HOSTILE half (profile c09_hostile): the same sessions with the fault kind CORRUPTION - request bodies, response bodies and stored bytes (operations of a change, snapshots, plain and compressed) are mutated at byte level (flip, truncate, splice, drop, length prefix) and at structure level (a populated field of the decoded protobuf at any depth, also inside nested element encodings, is cleared / zeroed / duplicated / truncated), and mutated real encodings are handed to BytesToSnapshot / BytesToObject / BytesToArray / BytesToTree / FromChangePack and, when accepted, used. Decided there: the server process survives and every call returns; recovered panics are collected and reported at the end of the run.", "note": _common + "; on the pinned tree hostile bytes that still decode reach executing code unvalidated and panic at more than 15 sites (known finding hostile-bytes-reach-executing-code, a broad one: a NEW panic site in a decoder is therefore not told apart from the known ones - seeded change C09-1 is missed); the fix 54b7dee2 removed the one consequence that killed the process"},
    "C13": {"level": "An intruder inside ordinary editing sessions: project 0 (victim, owner user0) runs a C01-style session with real clients, snapshots and automatic revisions; project 1 belongs to another user. Between the victim's steps the intruder calls a procedure of YorkieService / AdminService / ClusterService - the list is read from the generated service descriptors at run time, requests are filled field by field (by field name) with the victim's real client id, document id, document key, project id/name, revision id, or with its own client/document plus one identifier of the victim - under every credential it can present {none, garbage, its own project key, its own user token, its own project secret, its public key as secret; none/wrong cluster secret}. Oracles per call: (1) every stored row of every memdb table that is not the intruder's own (project, user, clients, documents and their rows) is byte-identical before and after; (2) a call that names something of the victim or presents no valid credential is refused, with not-found / unauthenticated / permission-denied (failed-precondition and invalid-argument only if the twin call gets the same); (3) existence is not revealed: the twin call naming identifiers that exist nowhere gets the same code; (4) no answer carries a value of the victim's documents; (5) no stream is opened, no handler panics, every call returns; plus the C01 oracles on the victim's session (identical document keys in two projects are different documents).", "note": _common + "; which principal an admin handler reads (project or user) is extracted from admin_server.go at build time; the auth webhook is not configured; a credential of the wrong kind makes admin handlers panic on the pinned tree (known finding); account enumeration through LogIn/ChangePassword (unauthenticated vs not-found) is outside the property (it speaks of clients and documents) and not judged"},
    "C16": {"level": "Step-level engine: after a sequential set-up all clients talk to the real server AT THE SAME TIME (1-3 syncs each, push-only syncs, detach+re-attach, explicit deactivation, duplicated requests with both copies in flight) together with admin compaction, a SERVER CRASH as one more scheduling decision (the process dies at a yield point: requests in flight are lost, what was stored survives, the server restarts, clients retry), the housekeeping deactivation body after a 25 h silence and the server's own background goroutines (snapshot writer). Every task runs on its own goroutine; exactly one runs at a time and gives control back at every storage call, every pkg/locker operation and every spin on an instrumented mutex (build overlay, nothing written to /repo); a seeded scheduler picks who continues. The scheduler keeps a model of the named RW locks (writer, readers, announced writers = Go's writer preference) and only resumes a task whose lock request the model admits: a state with unfinished tasks and nobody admissible is a DEADLOCK, reported with the wait-for relation; every acquisition is compared with the documented order doc -> pull -> attachment -> push (lock-order oracle); every request must return; afterwards the C01/C04/C05 oracles (convergence incl. server rebuild, conservation, log shape, clone == root, no un-faulted failure) are evaluated. A death of the process by the Go runtime (fatal error: unlock of unlocked mutex, concurrent map access, panic on a server goroutine) is reproduced alone, minimised out of process and reported as a violation.", "note": _common + "; NOT covered: the race-detector half of the property (the scheduler's hand-off orders all memory accesses, so unsynchronised accesses between two yield points are invisible - seeded change C16-1 is out of reach), watch streams inside the same sections (C17 drives pubsub separately)"},
    "C17": {"level": "The real server/backend/pubsub package (PubSub, Subscriptions, BatchPublisher, cmap) under the step-level engine: up to 4 subscribers and 3 publishers on one document key Subscribe / Publish / Unsubscribe concurrently; the package's mutexes are rewritten in the build overlay into TryLock-spin-yield, so a seeded scheduler decides every interleaving at every mutex acquisition; simulated time (batch window, publish time-out) passes only when the scheduler says so. Consumers are prompt (drain after every step) or stalled. Oracles over the recorded history (events stamped with the scheduler's step number): a subscriber whose Subscribe returned before Publish was invoked and whose Unsubscribe was invoked after Publish returned - and that drains - receives an event of that publisher or a closed channel within a bounded linger (8 simulated seconds); nothing is received after Unsubscribe returned; the subscription map is empty once all have unsubscribed; no panic (send on closed channel) - also on the publisher's own goroutine (process death is reproduced and reported).", "note": "the pubsub package runs alone (no RPC layer, no WatchDocument stream); channel operations are not yield points (only mutex acquisitions, timers and task starts are); sampling, not proof"},
    "C19": {"level": "The five pair matrices (ranges x op1 x op2) are extracted at build time from test/complex/tree_concurrency_test.go of the CURRENT tree (data and op.run methods are upstream's, the runner is the simulator): every one of the 1592 cells x both sync orders x both assignments of the two operations to the two clients (equal lamports: the author's id decides which operation is later) - and all of that a second time with the merge helper upstream's test was meant to have (since Go 1.22 upstream's parseSimpleXML makes every 'merge' of the matrix a no-op; the first sweep keeps upstream's behaviour, the second one really merges) - is one simulated run with two change-fed clients and a third client fed by snapshot that edits on top of it; oracles: ToXML and Marshal equal on all three and on the server's rebuild, clone == root, no step fails. The quick tier already sweeps the whole matrix (12736 runs, ~40 s).", "note": _common + "; exhaustive over the declared matrix, exploration beyond it is C01's job", "technique": "deterministic simulation, exhaustive sweep of a finite matrix of two-client schedules"},
    "C20": {"level": "(a) the real mongo.ChangeStore is driven through the call protocol of mongo/client.go (ReplaceOrInsert+ExpandRange by writers, EnsureChanges+ChangesInRange by readers, eviction, fetch errors, changes stored by other nodes) against a ground-truth table with presence-only holes: served range == table range, the fetcher is never asked for a covered sequence number; (b) C02-style sessions with frequent rebuild steps: BuildInternalDocForServerSeq(s) at the head and at earlier points with the cache as it is == after Purge() == replicas holding the same vector, interleaved with pushes, purges, tiny caches, restarts.", "note": _common + "; the Mongo collection and the glue in mongo/client.go are a stub (a change there is not seen); pkg/cache LRU expiry is not covered"},
    "C18": {"level": "At sync points and at quiescence every replica's document goes through FromCRDT -> Marshal -> Unmarshal -> SetYSON into a fresh Document -> FromCRDT; generated YSON literals of every element type enter through SetYSONElement/WithInitialRoot; a revision created mid-run is restored at the end and must give every replica the recorded content; after all clients detached the real compaction must succeed and keep the content.", "note": _common},
}

NOT_CLAIMED = {
    "C15": "not claimed: on the pinned tree undo/redo combined with synchronisation violates the property in many distinct ways (sync failures 'child not found' / 'not applicable datatype' / 'node not found', divergence, upstream's own remote-redo divergence); the simulator profile exists (sim/props_c14.go, c15_undo_sync) and finds them within seconds, but a check that is quiet on the unchanged tree would have to list a finding so broad that it decides nothing - see DESIGN.md section 9",
}
