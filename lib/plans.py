"""Per-property run plans (which profiles, how many runs per tier) and the
evidence writer."""
import json

# runs are sized for ~60-90 s (quick) / 10-20 min (thorough) on 16 cores
PLANS = {
    "C01": {"profiles": ["c01_faultfree", "c01_lossy"], "quick": 6000, "thorough": 120000},
    "C03": {"profiles": ["c03_gc_twin"], "quick": 1000, "thorough": 40000},
    "C04": {"profiles": ["c04_sequential"], "quick": 5000, "thorough": 100000},
    "C05": {"profiles": ["c05_fault_sweep"], "quick": 5000, "thorough": 100000},
    "C18": {"profiles": ["c18_yson"], "quick": 2000, "thorough": 80000},
    "C10": {"profiles": ["c10_compaction"], "quick": 3000, "thorough": 60000},
    "C11": {"profiles": ["c11_lifecycle"], "quick": 8000, "thorough": 200000},
    "C14": {"profiles": ["c14_undo_exact", "c14_undo_approx"], "quick": 5000, "thorough": 100000},
    "C12": {"profiles": ["c12_presence", "c12_presenceless"], "quick": 2500, "thorough": 100000},
    "C08": {"profiles": ["c08_atomic_update"], "quick": 5000, "thorough": 100000},
    "C06": {"profiles": ["c06_clocks", "c06_clocks", "c06_gcfree"], "quick": 5000, "thorough": 100000},
    "C02": {"profiles": ["c02_snapshots", "c02_snapshots_faults"], "quick": 5000, "thorough": 100000},
}

LEVEL = {}

REAL_STUB = {
    "real": [
        "CRDTs, operations, change/ID/version vectors, document.Document, history, presence, yson, schema validator",
        "wire encoding (converter, protobuf), snapshot bytes, stored operation bytes, snapshot compression",
        "client.Client in manual sync mode (Activate/Attach/Sync/Detach/Remove/Deactivate)",
        "Connect handlers of the Yorkie/Cluster services with all interceptors, invoked through ServeHTTP",
        "packs (PushPull, snapshots, compaction), clients, documents, housekeeping task bodies",
        "memory.DB (go-memdb) behind the generated fault/park proxy; named lockers, snapshot LRU cache, background",
    ],
    "stub": [
        "TCP/HTTP2/TLS (in-process RoundTripper = simulated network)",
        "MongoDB backend (not run)", "gocron scheduling, membership lease, Kafka, StarRocks, webhooks (not exercised)",
        "clocks/timers/tickers: testing/synctest bubble clock",
    ],
}


def plan_for(prop, tier):
    p = PLANS.get(prop)
    if p is None:
        return None
    out = {"profiles": list(p["profiles"]), "runs": p[tier], "chunk": p.get("chunk", 250)}
    out["budget_s"] = p.get("budget_" + tier, 150 if tier == "quick" else 1800)
    out["min_budget_s"] = 40 if tier == "quick" else 120
    for k in ("gomaxprocs", "workers", "ulimit_kb"):
        if k in p:
            out[k] = p[k]
    return out


def evidence(prop, tier, seed, plan, results, infra, unlisted, known_hits, wall, stopped_early):
    evals = len(results)
    distinct = set()
    faults = {}
    probes = {}
    sim_ms = 0
    steps = 0
    samples = []
    per_profile = {}
    for r in results:
        if r.get("nontrivial") and not r.get("violation"):
            distinct.add(r.get("log_hash") or r.get("trace_hash"))
        for k, v in (r.get("faults") or {}).items():
            faults[k] = faults.get(k, 0) + v
        for k, v in (r.get("probes") or {}).items():
            if k.startswith("dbfault:"):
                continue
            probes[k] = probes.get(k, 0) + v
        sim_ms += r.get("sim_ms", 0)
        steps += r.get("steps", 0)
        per_profile[r.get("profile")] = per_profile.get(r.get("profile"), 0) + 1
        if r.get("trace") and not r.get("violation") and len(samples) < 2:
            tr = r["trace"]
            samples.append({"profile": r.get("profile"), "seed": r.get("seed"), "config": r.get("config"),
                            "steps": tr[:40], "steps_total": len(tr), "outcomes": (r.get("outs") or [])[:40]})
    if not samples:
        samples.append({"note": "no non-trivial passing run kept a trace in this batch"})
    ev = {
        "property_id": prop,
        "tier": tier,
        "seed": seed,
        "level": "exploration",
        "wall_s": round(wall, 1),
        "violations": len(unlisted),
        "coverage": {
            "evaluations": evals,
            "distinct_nontrivial": len(distinct),
            "rule": ("each evaluation is one complete simulated run (own bubble, own server, own memdb) generated from "
                     "mix(VERIF_SEED, run index); distinct = distinct hash of the full event log (steps, outcomes, storage-call counts); "
                     "non-trivial = the profile's rule (for editing sessions: >=2 edits applied, >=1 remote change applied on a replica, "
                     ">=2 replicas compared at quiescence)"),
            "samples": samples,
            "runs_per_profile": per_profile,
            "runs_planned": plan["runs"],
            "stopped_early_by_wall_budget": bool(stopped_early),
            "runs_per_hour": int(evals / wall * 3600) if wall > 0 else 0,
            "simulated_seconds_covered": round(sim_ms / 1000.0, 1),
            "steps_executed": steps,
            "faults_fired": faults,
            "reach_probes": probes,
            "known_findings_met_by_search": {k: len(v) for k, v in known_hits.items()},
            "components": REAL_STUB,
            "infra_failures": len(infra),
        },
        "assumptions": [
            "memdb stands in for MongoDB; only what reached storage survives a simulated crash",
            "one RPC is one atomic step in the message-level engine (interleavings inside a request belong to the step-level engine)",
            "sampling, not enumeration: a clean batch is evidence, not proof",
        ],
    }
    return ev

# per-property text for MANIFEST.json
META = {
    "C01": {
        "level": "Seeded exploration of complete multi-client editing sessions (2-5 real clients, real server, 20-200 steps, long offline stretches, re-attach, rejoin, vanish) with and without message faults; oracles: byte-identical Marshal() of all replicas and of the server's rebuilt document after bounded quiescence, equal content whenever two replicas hold equal version vectors, no un-faulted call fails, clone == root. Sampling, not proof.",
        "note": "memdb instead of MongoDB; one RPC is one atomic step; GC-related known findings (known_findings.json) are recognised only after minimisation plus a GC-off counterfactual replay",
    },
}

NOT_CLAIMED = {
    "C15": "not claimed: on the pinned tree undo/redo combined with synchronisation violates the property in many distinct ways (sync failures 'child not found' / 'not applicable datatype' / 'node not found', divergence, upstream's own remote-redo divergence); the simulator profile exists (sim/props_c14.go, c15_undo_sync) and finds them within seconds, but a check that is quiet on the unchanged tree would have to list a finding so broad that it decides nothing - see DESIGN.md section 9",
}
