#!/bin/bash
# thorough_batch.sh <out-file> <prop>... : runs the thorough tier of the given checks (no evidence written)
V=$(cd "$(dirname "$0")/.." && pwd)
OUT=$1; shift
cd $V
for p in "$@"; do
  s=$(date +%s)
  ./check $p --tier thorough --no-evidence > /tmp/thorough-$p.log 2>&1
  rc=$?
  echo "$p rc=$rc $(( $(date +%s) - s ))s $(grep -c '^VIOLATION' /tmp/thorough-$p.log) violations; $(grep -v '^    ' /tmp/thorough-$p.log | grep ' thorough: .* runs (' | cut -c1-120)" >> $OUT
done
echo ALLDONE >> $OUT
