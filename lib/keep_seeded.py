#!/usr/bin/python3
"""keep_seeded.py <id> <confirm-srcdir> <check> <caught 0|1> <result text> : stores a confirmed seeded change under seeded/<id>/."""
import json, os, shutil, sys, glob
V = os.path.dirname(os.path.dirname(os.path.abspath(__file__)))
mid, src, chk, caught, result = sys.argv[1:6]
d = os.path.join(V, "seeded", mid)
os.makedirs(d, exist_ok=True)
shutil.copy(os.path.join(src, "patch.diff"), d)
shutil.copy(os.path.join(src, "demo_path.txt"), d)
for t in glob.glob(os.path.join(src, "*_test.go")):
    shutil.copy(t, os.path.join(d, os.path.basename(t) + ".txt"))
notes = open(os.path.join(src, "notes.md")).read() if os.path.exists(os.path.join(src, "notes.md")) else ""
files = [l[6:].strip() for l in open(os.path.join(src, "patch.diff")) if l.startswith("+++ b/")]
prop = mid.split("-")[0]
meta = {
    "property": prop, "breaks_property": prop, "files": files,
    "summary_and_needs": notes,
    "demo_cmd": "cp %s <tree>/%s && go test -vet=off -count=1 -run <TestName> ./%s/" % (
        os.path.basename(glob.glob(os.path.join(src, "*_test.go"))[0]), open(os.path.join(src, "demo_path.txt")).read().strip(),
        os.path.dirname(open(os.path.join(src, "demo_path.txt")).read().strip())),
    "confirmed": "lib/confirm_mutant.sh in a scratch worktree: demo passes on the clean tree, fails with the patch; patched tree builds and passes `go test ./...`",
    "checks_run": [{"check": chk, "caught": caught == "1", "result": result}],
    "how_run": "lib/try_mutant.sh: git -C /repo apply patch.diff; ./check <property> --no-evidence; git -C /repo checkout -- .  (tree of the final /repo HEAD with all fix: commits)",
    "origin": "third wave: fresh sub-agent given only the property text and a scratch worktree",
}
json.dump(meta, open(os.path.join(d, "meta.json"), "w"), indent=1)
with open(os.path.join(V, "seeded", "matrix.tsv"), "a") as f:
    f.write("%s\t%s\tcheck rc=%s\t  %s\n" % (mid, chk, caught, result))
print("kept", d)
