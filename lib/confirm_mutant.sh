#!/bin/bash
# confirm_mutant.sh <srcdir with patch.diff, demo, demo_path.txt, meta.json> : confirms in a scratch worktree that
# (a) the demo passes on the clean tree, (b) fails with the patch, (c) the patched tree builds and passes the default suite.
set -u
SRC=$1
export GOFLAGS=-mod=mod GOPROXY=off
WT=/tmp/confirm-$$
git -C /repo worktree add -q --detach $WT HEAD || exit 2
trap 'git -C /repo worktree remove --force $WT >/dev/null 2>&1' EXIT
cd $WT
DP=$(cat $SRC/demo_path.txt | tr -d '\n ')
DEMO=$(ls $SRC/*_test.go | head -1)
PKG=./$(dirname $DP)/
cp $DEMO $WT/$DP
RUN=$(grep -o 'func Test[A-Za-z0-9_]*' $DEMO | head -1 | sed 's/func //')
echo "demo $DP test $RUN pkg $PKG"
go test -vet=off -count=1 -run "^$RUN" $PKG > /tmp/confirm-$$-clean.log 2>&1; A=$?
git apply $SRC/patch.diff || { echo "PATCH DOES NOT APPLY"; exit 3; }
go build ./... > /tmp/confirm-$$-build.log 2>&1; B=$?
go test -vet=off -count=1 -run "^$RUN" $PKG > /tmp/confirm-$$-patched.log 2>&1; C=$?
rm -f $WT/$DP
go test -vet=off -count=1 ./... > /tmp/confirm-$$-suite.log 2>&1; D=$?
echo "clean_demo_rc=$A build_rc=$B patched_demo_rc=$C suite_rc=$D"
if [ $A -eq 0 ] && [ $B -eq 0 ] && [ $C -ne 0 ] && [ $D -eq 0 ]; then echo CONFIRMED; exit 0; fi
echo NOT-CONFIRMED; tail -5 /tmp/confirm-$$-clean.log /tmp/confirm-$$-patched.log; grep -v "^ok\|no test files" /tmp/confirm-$$-suite.log | tail -10; exit 1
