#!/usr/bin/python3
"""Adds the outcome of the checks to seeded/<id>/meta.json (from .work/mutants.tsv and a built-in table of earlier trials)."""
import json, os, sys
VERIF = os.path.dirname(os.path.dirname(os.path.abspath(__file__)))
earlier = {}  # every change is re-run against its property's check by lib/mutant_batch.sh < lib/mutant_matrix.txt
tsv = os.path.join(VERIF, ".work", "mutants.tsv")
if os.path.exists(tsv):
    for line in open(tsv):
        parts = line.rstrip("\n").split("\t")
        if len(parts) < 3:
            continue
        m, p, rc = parts[0], parts[1], parts[2]
        cls = parts[3] if len(parts) > 3 else ""
        earlier.setdefault(m, []).append((p, 1 if rc.endswith("=1") else 0, cls.strip() or ("no violation reported" if rc.endswith("=0") else rc)))
for d in sorted(os.listdir(os.path.join(VERIF, "seeded"))):
    mp = os.path.join(VERIF, "seeded", d, "meta.json")
    if not os.path.exists(mp):
        continue
    meta = json.load(open(mp))
    runs = earlier.get(d, [])
    meta["breaks_property"] = meta.get("property", d.split("-")[0])
    meta["confirmed"] = "lib/confirm_mutant.sh in a scratch worktree: demo passes on the clean tree, fails with the patch; patched tree builds and passes `go test ./...`"
    meta["checks_run"] = [{"check": p, "caught": bool(c), "result": r} for p, c, r in runs] or [{"check": None, "caught": False, "result": "no check exists for this property (not claimed) and no other check was tried"}]
    meta["how_run"] = "lib/try_mutant.sh: git -C /repo apply patch.diff; ./check <property> --no-evidence --runs <quick count>; git -C /repo checkout -- .  (tree of the final /repo HEAD with all fix: commits)"
    json.dump(meta, open(mp, "w"), indent=1)
print("seeded meta updated")
