#!/usr/bin/python3
"""Adds the outcome of the checks to seeded/<id>/meta.json (from .work/mutants.tsv and a built-in table of earlier trials)."""
import json, os, sys
VERIF = os.path.dirname(os.path.dirname(os.path.abspath(__file__)))
earlier = {
 "C01-1": [("C01", 1, "replicas_diverged / server_rebuild_differs")],
 "C01-2": [("C01", 1, "no_panic: set <ticket>: child not found"), ("C04", 1, "delivered_changes_differ_from_log_range (own change echoed)")],
 "C02-1": [("C02", 1, "server_rebuild_failed_cold")],
 "C02-2": [("C02", 1, "rebuild_warm_differs_from_cold"), ("C20", 1, "rebuild_warm_differs_from_cold")],
 "C03-1": [("C03", 1, "unfaulted_call_failed: MoveAfter child not found")],
 "C03-2": [("C03", 1, "unfaulted_call_failed: MoveAfter child not found")],
 "C04-1": [("C04", 1, "unfaulted_call_failed after push-only checkpoint jump")],
 "C04-2": [("C04", 0, "missed: needs two overlapping requests of one client (step-level engine not built)")],
 "C05-1": [("C05", 1, "token_lost")],
 "C05-2": [("C05", 1, "change_stored_twice"), ("C04", 1, "delivered_changes_differ_from_log_range")],
 "C10-1": [("C10", 0, "missed: needs the new generation's log to outgrow the old head with no rebuild in between")],
 "C10-2": [("C10", 1, "stale_sync_accepted")],
 "C11-1": [("C11", 1, "version_vector_row_left_behind")],
 "C11-2": [("C11", 0, "missed: needs an attach that fails after TryAttaching; raw clients send well-formed attaches only")],
 "C12-1": [("C12", 1, "presence_participants_differ_from_attached")],
 "C12-2": [("C12", 1, "clone_differs_from_root / presence stored (after the flag-mismatch finding's key was narrowed by class)")],
 "C14-1": [("C14", 1, "redo_content_mismatch")],
 "C14-2": [("C14", 0, "missed: needs GC before Undo, outside the claimed local domain")],
 "C18-1": [("C18", 1, "replicas_diverged")],
 "C18-2": [("C18", 1, "restored_content_differs")],
 "C19-1": [("C19", 0, "missed: the cell (merge x delete, intersect-element) is swept but converges under the simulator's clocks")],
 "C19-2": [("C19", 1, "tree_xml_diverged")],
 "C20-1": [("C20", 1, "cache_served_range_differs_from_store")],
 "C20-2": [("C20", 1, "rebuild_warm_differs_from_cold")],
}
tsv = os.path.join(VERIF, ".work", "mutants.tsv")
if os.path.exists(tsv):
    for line in open(tsv):
        parts = line.rstrip("\n").split("\t")
        if len(parts) < 3:
            continue
        m, p, rc = parts[0], parts[1], parts[2]
        cls = parts[3] if len(parts) > 3 else ""
        earlier.setdefault(m, []).append((p, 1 if rc.endswith("=1") else 0, cls.strip() or ("no violation reported" if rc.endswith("=0") else rc)))
for d in sorted(os.listdir(os.path.join(VERIF, "seeded"))):
    mp = os.path.join(VERIF, "seeded", d, "meta.json")
    if not os.path.exists(mp):
        continue
    meta = json.load(open(mp))
    runs = earlier.get(d, [])
    meta["breaks_property"] = meta.get("property", d.split("-")[0])
    meta["confirmed"] = "lib/confirm_mutant.sh in a scratch worktree: demo passes on the clean tree, fails with the patch; patched tree builds and passes `go test ./...`"
    meta["checks_run"] = [{"check": p, "caught": bool(c), "result": r} for p, c, r in runs] or [{"check": None, "caught": False, "result": "no check exists for this property (not claimed) and no other check was tried"}]
    meta["how_run"] = "git -C /repo apply patch.diff; ./check <property> --runs <quick count>; git -C /repo checkout -- ."
    json.dump(meta, open(mp, "w"), indent=1)
print("seeded meta updated")
