module gendbproxy

go 1.23
