// gendbproxy reads the Database interface from the *current* yorkie tree and
// emits a proxy type that wraps every method with a before/after hook. The
// simulator uses it as the storage seam: fault injection (error before/after
// effect, crash before/after), parking of background callers, call recording.
//
// usage: gendbproxy <repo>/server/backend/database/database.go <out.go> <package>
package main

import (
	"bytes"
	"fmt"
	"go/ast"
	"go/format"
	"go/parser"
	"go/printer"
	"go/token"
	"os"
	"sort"
	"strings"
)

var builtins = map[string]bool{
	"bool": true, "string": true, "int": true, "int8": true, "int16": true, "int32": true, "int64": true,
	"uint": true, "uint8": true, "uint16": true, "uint32": true, "uint64": true, "uintptr": true,
	"byte": true, "rune": true, "float32": true, "float64": true, "complex64": true, "complex128": true,
	"error": true, "any": true,
}

type gen struct {
	fset    *token.FileSet
	imports map[string]string // alias/name -> path
	used    map[string]bool
}

// qualify rewrites identifiers that refer to the database package itself.
func (g *gen) qualify(e ast.Expr) ast.Expr {
	switch t := e.(type) {
	case *ast.Ident:
		if builtins[t.Name] {
			return t
		}
		g.used["database"] = true
		return &ast.SelectorExpr{X: ast.NewIdent("database"), Sel: ast.NewIdent(t.Name)}
	case *ast.StarExpr:
		return &ast.StarExpr{X: g.qualify(t.X)}
	case *ast.ArrayType:
		return &ast.ArrayType{Len: t.Len, Elt: g.qualify(t.Elt)}
	case *ast.MapType:
		return &ast.MapType{Key: g.qualify(t.Key), Value: g.qualify(t.Value)}
	case *ast.SelectorExpr:
		if id, ok := t.X.(*ast.Ident); ok {
			g.used[id.Name] = true
		}
		return t
	case *ast.Ellipsis:
		return &ast.Ellipsis{Elt: g.qualify(t.Elt)}
	case *ast.InterfaceType:
		return t
	case *ast.FuncType:
		return t
	case *ast.IndexExpr:
		return &ast.IndexExpr{X: g.qualify(t.X), Index: g.qualify(t.Index)}
	case *ast.ChanType:
		return &ast.ChanType{Dir: t.Dir, Value: g.qualify(t.Value)}
	}
	return e
}

func (g *gen) str(e ast.Expr) string {
	var b bytes.Buffer
	if err := printer.Fprint(&b, g.fset, e); err != nil {
		panic(err)
	}
	return b.String()
}

func main() {
	if len(os.Args) != 4 {
		fmt.Fprintln(os.Stderr, "usage: gendbproxy database.go out.go pkg")
		os.Exit(2)
	}
	src, out, pkg := os.Args[1], os.Args[2], os.Args[3]
	g := &gen{fset: token.NewFileSet(), imports: map[string]string{}, used: map[string]bool{}}
	f, err := parser.ParseFile(g.fset, src, nil, 0)
	if err != nil {
		fmt.Fprintln(os.Stderr, err)
		os.Exit(2)
	}
	for _, im := range f.Imports {
		path := strings.Trim(im.Path.Value, `"`)
		name := path[strings.LastIndex(path, "/")+1:]
		if im.Name != nil {
			name = im.Name.Name
		}
		g.imports[name] = path
	}
	g.imports["database"] = "github.com/yorkie-team/yorkie/server/backend/database"

	var iface *ast.InterfaceType
	ast.Inspect(f, func(n ast.Node) bool {
		ts, ok := n.(*ast.TypeSpec)
		if ok && ts.Name.Name == "Database" {
			if it, ok := ts.Type.(*ast.InterfaceType); ok {
				iface = it
			}
		}
		return true
	})
	if iface == nil {
		fmt.Fprintln(os.Stderr, "Database interface not found")
		os.Exit(2)
	}

	var body bytes.Buffer
	var names []string
	for _, m := range iface.Methods.List {
		ft, ok := m.Type.(*ast.FuncType)
		if !ok || len(m.Names) == 0 {
			continue // embedded interface: not expected
		}
		name := m.Names[0].Name
		names = append(names, name)

		var params, args []string
		hasCtx := false
		ctxName := ""
		idx := 0
		if ft.Params != nil {
			for _, p := range ft.Params.List {
				typ := g.qualify(p.Type)
				ts := g.str(typ)
				n := len(p.Names)
				if n == 0 {
					n = 1
				}
				for i := 0; i < n; i++ {
					an := fmt.Sprintf("a%d", idx)
					idx++
					params = append(params, an+" "+ts)
					if _, isEll := typ.(*ast.Ellipsis); isEll {
						args = append(args, an+"...")
					} else {
						args = append(args, an)
					}
					if ts == "context.Context" && !hasCtx {
						hasCtx = true
						ctxName = an
					}
				}
			}
		}
		var rets []string
		lastErr := false
		if ft.Results != nil {
			for _, r := range ft.Results.List {
				ts := g.str(g.qualify(r.Type))
				n := len(r.Names)
				if n == 0 {
					n = 1
				}
				for i := 0; i < n; i++ {
					rets = append(rets, ts)
				}
			}
			lastErr = len(rets) > 0 && rets[len(rets)-1] == "error"
		}
		fmt.Fprintf(&body, "func (p *DBProxy) %s(%s) (%s) {\n", name, strings.Join(params, ", "), strings.Join(rets, ", "))
		call := fmt.Sprintf("p.Inner.%s(%s)", name, strings.Join(args, ", "))
		if !hasCtx || !lastErr {
			if len(rets) == 0 {
				fmt.Fprintf(&body, "\t%s\n}\n\n", call)
			} else {
				fmt.Fprintf(&body, "\treturn %s\n}\n\n", call)
			}
			continue
		}
		var rv, zero []string
		for i := range rets {
			rv = append(rv, fmt.Sprintf("r%d", i))
		}
		for i, r := range rets[:len(rets)-1] {
			fmt.Fprintf(&body, "\tvar z%d %s\n", i, r)
			zero = append(zero, fmt.Sprintf("z%d", i))
		}
		zs := strings.Join(zero, ", ")
		if zs != "" {
			zs += ", "
		}
		var hargs []string
		for _, a := range args {
			a = strings.TrimSuffix(a, "...")
			if a != ctxName {
				hargs = append(hargs, a)
			}
		}
		fmt.Fprintf(&body, "\targs := []any{%s}\n", strings.Join(hargs, ", "))
		fmt.Fprintf(&body, "\ttok, err := p.H.Before(%s, %q, args)\n", ctxName, name)
		fmt.Fprintf(&body, "\tif err != nil {\n\t\treturn %serr\n\t}\n", zs)
		fmt.Fprintf(&body, "\t%s := %s\n", strings.Join(rv, ", "), call)
		fmt.Fprintf(&body, "\tif err := p.H.After(%s, %q, tok, args, []any{%s}); err != nil {\n\t\treturn %serr\n\t}\n", ctxName, name, strings.Join(rv, ", "), zs)
		fmt.Fprintf(&body, "\treturn %s\n}\n\n", strings.Join(rv, ", "))
	}
	g.used["context"] = true
	g.used["database"] = true

	var outb bytes.Buffer
	fmt.Fprintf(&outb, "// Code generated by /verif/tools/gendbproxy from the current tree's database.go; DO NOT EDIT.\n\npackage %s\n\nimport (\n", pkg)
	var keys []string
	for k := range g.used {
		keys = append(keys, k)
	}
	sort.Strings(keys)
	for _, k := range keys {
		path, ok := g.imports[k]
		if !ok {
			fmt.Fprintf(os.Stderr, "unknown package name %q\n", k)
			os.Exit(2)
		}
		fmt.Fprintf(&outb, "\t%s %q\n", k, path)
	}
	fmt.Fprintf(&outb, ")\n\n")
	fmt.Fprintf(&outb, `// DBHooks is implemented by the simulator.
type DBHooks interface {
	// Before runs before the real call. A non-nil error is returned to the
	// caller instead of making the call. It may block (parking) or panic
	// (simulated crash).
	Before(ctx context.Context, method string, args []any) (tok int, err error)
	// After runs after the real call with the real call's results (last is the error). A non-nil
	// error replaces the results (effect happened, caller sees failure).
	After(ctx context.Context, method string, tok int, args []any, rets []any) error
}

// DBProxy wraps a database.Database.
type DBProxy struct {
	Inner database.Database
	H     DBHooks
}

var _ database.Database = (*DBProxy)(nil)

// DBMethods lists the interface's methods in declaration order.
var DBMethods = []string{
`)
	for _, n := range names {
		fmt.Fprintf(&outb, "\t%q,\n", n)
	}
	fmt.Fprintf(&outb, "}\n\n")
	outb.Write(body.Bytes())
	res, err := format.Source(outb.Bytes())
	if err != nil {
		os.WriteFile(out, outb.Bytes(), 0o644)
		fmt.Fprintln(os.Stderr, "format:", err)
		os.Exit(2)
	}
	if err := os.WriteFile(out, res, 0o644); err != nil {
		fmt.Fprintln(os.Stderr, err)
		os.Exit(2)
	}
}
