#!/usr/bin/python3
"""Build-time instrumentation for the step-level engine, through `go build -overlay`
(nothing is written to /repo):

 * pkg/zzsimrt            (new package, exists only in the overlay): hook variables
 * pkg/locker/locker.go   (copy of the CURRENT file): Lock/RLock/TryLock/Unlock/RUnlock
                          are renamed to *Orig and wrapped by methods that call the hooks
                          with the lock NAME before and after the real call
 * server/backend/pubsub/*.go (copies): `x.Lock()` / `x.RLock()` on the package's sync
                          mutexes become `for !x.TryLock() { zzsimrt.Yield("mu") }` so that a
                          task never blocks on a real mutex held by a parked task

With the hooks nil (message-level engine, or a binary run without the simulator) the
instrumented code behaves exactly like the original.

usage: geninstr.py <repo> <outdir>   -> writes <outdir>/overlay.json
"""
import json
import os
import re
import sys


def seeded_selects(t, fn):
    """A select whose cases are all plain receives picks at random among the cases that are
    ready on entry (Go runtime). Rewritten so that, under the simulator, the cases are
    probed one by one in an order the seeded scheduler decides; without the hook the
    original blocking select runs. gofmt layout is relied upon."""
    lines = t.split("\n")
    out = []
    i = 0
    n = 0
    while i < len(lines):
        m = re.match(r"^(\t*)select \{\s*$", lines[i])
        if not m:
            out.append(lines[i])
            i += 1
            continue
        ind = m.group(1)
        j = i + 1
        while j < len(lines) and lines[j] != ind + "}":
            j += 1
        block = lines[i + 1:j]
        cases = []  # (expr, body lines)
        ok = True
        for ln in block:
            cm = re.match(r"^%scase <-(.+):\s*$" % ind, ln)
            if cm:
                cases.append((cm.group(1), []))
            elif ln.startswith(ind + "case ") or ln.startswith(ind + "default:"):
                ok = False
                break
            elif cases:
                cases[-1][1].append(ln)
            elif ln.strip():
                ok = False
                break
        if not ok or len(cases) < 2:
            out.extend(lines[i:j + 1])
            i = j + 1
            continue
        n += 1
        v = "zzsel%d" % n
        out.append("%s%s := -1" % (ind, v))
        out.append("%sif zzh := zzsimrt.PermHook; zzh != nil {" % ind)
        out.append("%s\tzzsimrt.Yield(\"select:%s\")" % (ind, fn))
        out.append("%s\tfor _, zzc := range zzh(%d) {" % (ind, len(cases)))
        out.append("%s\t\tswitch zzc {" % ind)
        for k, (expr, _) in enumerate(cases):
            out.append("%s\t\tcase %d:" % (ind, k))
            out.append("%s\t\t\tselect {" % ind)
            out.append("%s\t\t\tcase <-%s:" % (ind, expr))
            out.append("%s\t\t\t\t%s = %d" % (ind, v, k))
            out.append("%s\t\t\tdefault:" % ind)
            out.append("%s\t\t\t}" % ind)
        out.append("%s\t\t}" % ind)
        out.append("%s\t\tif %s >= 0 {" % (ind, v))
        out.append("%s\t\t\tbreak" % ind)
        out.append("%s\t\t}" % ind)
        out.append("%s\t}" % ind)
        out.append("%s}" % ind)
        out.append("%sif %s < 0 {" % (ind, v))
        out.append("%s\tselect {" % ind)
        for k, (expr, _) in enumerate(cases):
            out.append("%s\tcase <-%s:" % (ind, expr))
            out.append("%s\t\t%s = %d" % (ind, v, k))
        out.append("%s\t}" % ind)
        out.append("%s}" % ind)
        out.append("%sswitch %s {" % (ind, v))
        for k, (_, body) in enumerate(cases):
            out.append("%scase %d:" % (ind, k))
            out.extend(body)
        out.append("%s}" % ind)
        i = j + 1
    return "\n".join(out), n


repo, out = os.path.abspath(sys.argv[1]), os.path.abspath(sys.argv[2])
os.makedirs(out, exist_ok=True)
overlay = {}

RT = '''// Package zzsimrt holds the hook variables of the deterministic simulator.
// It exists only in the build overlay of /verif; with nil hooks it does nothing.
package zzsimrt

// LockHook is called before (phase "before") and after (phase "after") every
// operation of the named lockers. ok is the result of TryLock / the success of Unlock.
var LockHook func(phase, op, name string, ok bool)

// YieldHook is called where a task may have to wait for a mutex held by another task.
var YieldHook func(point string)

// Lock reports a named-lock operation to the simulator.
func Lock(phase, op, name string, ok bool) {
	if h := LockHook; h != nil {
		h(phase, op, name, ok)
	}
}

// PermHook, when set, decides the order in which cmap.Keys/Values list their entries
// (Go's map iteration order is random; under the simulator it is a seeded decision).
var PermHook func(n int) []int

// ShardHook, when set, decides which shard of a sharded cache a key lives in (the tree
// hashes with a process-random seed: which keys evict each other would otherwise differ
// from process to process).
var ShardHook func(cache, key string, shards int) int

// IDHook, when set, replaces process-random identifiers (xid) by simulator-chosen ones:
// the shard an id hashes to, and with it who contends with whom, must not depend on
// the process.
var IDHook func(orig string) string

// ID passes a freshly generated identifier through the simulator.
func ID(orig string) string {
	if h := IDHook; h != nil {
		return h(orig)
	}
	return orig
}

// Yield gives control back to the simulator's scheduler (busy-wait without it).
func Yield(point string) {
	if h := YieldHook; h != nil {
		h(point)
	}
}
'''
rtdir = os.path.join(out, "zzsimrt")
os.makedirs(rtdir, exist_ok=True)
with open(os.path.join(rtdir, "zzsimrt.go"), "w") as f:
    f.write(RT)
overlay[os.path.join(repo, "pkg/zzsimrt/zzsimrt.go")] = os.path.join(rtdir, "zzsimrt.go")

# ---- pkg/locker
src = os.path.join(repo, "pkg/locker/locker.go")
s = open(src).read()
methods = {
    "Lock": ("(name string)", "", "l.lockOrig(name)"),
    "TryLock": ("(name string) bool", "bool", "l.tryLockOrig(name)"),
    "Unlock": ("(name string) error", "error", "l.unlockOrig(name)"),
    "RLock": ("(name string)", "", "l.rLockOrig(name)"),
    "RUnlock": ("(name string) error", "error", "l.rUnlockOrig(name)"),
}
for m in methods:
    orig = m[0].lower() + m[1:] + "Orig"
    pat = r"func \(l \*Locker\) %s\(" % m
    if len(re.findall(pat, s)) != 1:
        sys.stderr.write("geninstr: cannot find exactly one method Locker.%s in %s\n" % (m, src))
        sys.exit(2)
    s = re.sub(pat, "func (l *Locker) %s(" % orig, s)
wrappers = '''

// ---- wrappers generated by /verif/tools/geninstr.py ----

func (l *Locker) Lock(name string) {
	zzsimrt.Lock("before", "Lock", name, true)
	l.lockOrig(name)
	zzsimrt.Lock("after", "Lock", name, true)
}

func (l *Locker) TryLock(name string) bool {
	zzsimrt.Lock("before", "TryLock", name, true)
	ok := l.tryLockOrig(name)
	zzsimrt.Lock("after", "TryLock", name, ok)
	return ok
}

func (l *Locker) Unlock(name string) error {
	err := l.unlockOrig(name)
	zzsimrt.Lock("after", "Unlock", name, err == nil)
	return err
}

func (l *Locker) RLock(name string) {
	zzsimrt.Lock("before", "RLock", name, true)
	l.rLockOrig(name)
	zzsimrt.Lock("after", "RLock", name, true)
}

func (l *Locker) RUnlock(name string) error {
	err := l.rUnlockOrig(name)
	zzsimrt.Lock("after", "RUnlock", name, err == nil)
	return err
}
'''
s = re.sub(r'import \(\n', 'import (\n\t"github.com/yorkie-team/yorkie/pkg/zzsimrt"\n', s, count=1)
s += wrappers
ldir = os.path.join(out, "locker")
os.makedirs(ldir, exist_ok=True)
with open(os.path.join(ldir, "locker.go"), "w") as f:
    f.write(s)
overlay[src] = os.path.join(ldir, "locker.go")

# ---- server/backend/pubsub: spin instead of blocking on package mutexes
pdir = os.path.join(repo, "server/backend/pubsub")
odir = os.path.join(out, "pubsub")
os.makedirs(odir, exist_ok=True)
lock_re = re.compile(r"^(\s*)((?:\w+\.)*\w*(?:mu|Mu|mutex|Mutex)\w*)\.(R?)Lock\(\)\s*$", re.M)
for fn in sorted(os.listdir(pdir)):
    if not fn.endswith(".go") or fn.endswith("_test.go"):
        continue
    p = os.path.join(pdir, fn)
    t = open(p).read()
    n = len(lock_re.findall(t))
    if n == 0 and "select {" not in t and "xid.New()" not in t:
        continue
    t = lock_re.sub(lambda m: '%szzsimrt.Yield("pre:%s:%s")\n%sfor !%s.Try%sLock() {\n%s\tzzsimrt.Yield("%s:%s")\n%s}' % (
        m.group(1), fn, m.group(2), m.group(1), m.group(2), m.group(3), m.group(1), fn, m.group(2), m.group(1)), t)
    t, nsel = seeded_selects(t, fn)
    t = t.replace("xid.New().String()", "zzsimrt.ID(xid.New().String())")
    if re.search(r'^import \(\n', t, flags=re.M):
        t = re.sub(r'^import \(\n', 'import (\n\t"github.com/yorkie-team/yorkie/pkg/zzsimrt"\n', t, count=1, flags=re.M)
    else:
        t = re.sub(r'^(package \w+\n)', r'\1\nimport "github.com/yorkie-team/yorkie/pkg/zzsimrt"\n', t, count=1, flags=re.M)
    with open(os.path.join(odir, fn), "w") as f:
        f.write(t)
    overlay[p] = os.path.join(odir, fn)

# ---- pkg/cmap: shard locks can be held across a yield (Upsert/Delete callbacks call into
# pubsub); whoever meets a held shard lock spins and yields instead of blocking for real
src = os.path.join(repo, "pkg/cmap/cmap.go")
t = open(src).read()
any_lock = re.compile(r"^(\s*)((?:\w+\.)*\w+)\.(R?)Lock\(\)\s*$", re.M)
if any_lock.search(t):
    t = any_lock.sub(lambda m: '%sfor !%s.Try%sLock() {\n%s\tzzsimrt.Yield("cmap:%s")\n%s}' % (
        m.group(1), m.group(2), m.group(3), m.group(1), m.group(2), m.group(1)), t)
    t = re.sub(r'^import \(\n', 'import (\n\t"sort"\n\t"github.com/yorkie-team/yorkie/pkg/zzsimrt"\n', t, count=1, flags=re.M)
    for name, sig in (("Keys", "[]K"), ("Values", "[]V")):
        pat = r"func \(m \*Map\[K, V\]\) %s\(\) %s \{" % (name, re.escape(sig))
        if len(re.findall(pat, t)) != 1:
            sys.stderr.write("geninstr: cannot find exactly one cmap.Map.%s\n" % name)
            sys.exit(2)
        t = re.sub(pat, "func (m *Map[K, V]) %sOrig() %s {" % (name[0].lower() + name[1:], sig), t)
    t += '''

// ---- generated by /verif/tools/geninstr.py: listing order is a decision of the simulator ----

// Keys returns a slice of all keys in the map
func (m *Map[K, V]) Keys() []K {
	keys := m.keysOrig()
	h := zzsimrt.PermHook
	if h == nil {
		return keys
	}
	sort.Slice(keys, func(i, j int) bool { return fmt.Sprintf("%v", keys[i]) < fmt.Sprintf("%v", keys[j]) })
	out := make([]K, 0, len(keys))
	for _, x := range h(len(keys)) {
		out = append(out, keys[x])
	}
	return out
}

// Values returns a slice of all values in the map
func (m *Map[K, V]) Values() []V {
	if zzsimrt.PermHook == nil {
		return m.valuesOrig()
	}
	keys := m.Keys()
	values := make([]V, 0, len(keys))
	for _, k := range keys {
		if v, ok := m.Get(k); ok {
			values = append(values, v)
		}
	}
	return values
}
'''
    cdir = os.path.join(out, "cmap")
    os.makedirs(cdir, exist_ok=True)
    with open(os.path.join(cdir, "cmap.go"), "w") as f:
        f.write(t)
    overlay[src] = os.path.join(cdir, "cmap.go")

# ---- pkg/cache: the shard of a key is a decision of the simulator
src = os.path.join(repo, "pkg/cache/lru_with_stats.go")
t = open(src).read()
pat = r"func \(c \*LRU\[K, V\]\) shard\(key K\) int \{\n"
if len(re.findall(pat, t)) != 1:
    sys.stderr.write("geninstr: cannot find exactly one LRU.shard in %s\n" % src)
    sys.exit(2)
t = re.sub(pat, 'func (c *LRU[K, V]) shard(key K) int {\n\tif h := zzsimrt.ShardHook; h != nil {\n\t\treturn h(c.name, fmt.Sprint(key), numShards)\n\t}\n', t)
t = re.sub(r'^import \(\n', 'import (\n\t"fmt"\n\t"github.com/yorkie-team/yorkie/pkg/zzsimrt"\n', t, count=1, flags=re.M)
kdir = os.path.join(out, "cache")
os.makedirs(kdir, exist_ok=True)
with open(os.path.join(kdir, "lru_with_stats.go"), "w") as f:
    f.write(t)
overlay[src] = os.path.join(kdir, "lru_with_stats.go")

# ---- memory database: object ids are numbered by the simulator (bson.NewObjectID mixes in
# five process-random bytes and a randomly initialised counter: the same run would carry
# different ids in every process and in its own replay)
src = os.path.join(repo, "server/backend/database/memory/database.go")
t = open(src).read()
pat = r"return types\.ID\(bson\.NewObjectID\(\)\.Hex\(\)\)"
if len(re.findall(pat, t)) != 1:
    sys.stderr.write("geninstr: cannot find exactly one bson.NewObjectID in %s\n" % src)
    sys.exit(2)
t = re.sub(pat, "return types.ID(zzsimrt.ID(bson.NewObjectID().Hex()))", t)
t = re.sub(r'^import \(\n', 'import (\n\t"github.com/yorkie-team/yorkie/pkg/zzsimrt"\n', t, count=1, flags=re.M)
# api/types.NewID is the other generator
src2 = os.path.join(repo, "api/types/id.go")
t2 = open(src2).read()
pat2 = r"return ID\(bson\.NewObjectID\(\)\.Hex\(\)\)"
if len(re.findall(pat2, t2)) != 1:
    sys.stderr.write("geninstr: cannot find exactly one bson.NewObjectID in %s\n" % src2)
    sys.exit(2)
t2 = re.sub(pat2, "return ID(zzsimrt.ID(bson.NewObjectID().Hex()))", t2)
t2 = re.sub(r'^import \(\n', 'import (\n\t"github.com/yorkie-team/yorkie/pkg/zzsimrt"\n', t2, count=1, flags=re.M)
tdir = os.path.join(out, "types")
os.makedirs(tdir, exist_ok=True)
with open(os.path.join(tdir, "id.go"), "w") as f:
    f.write(t2)
overlay[src2] = os.path.join(tdir, "id.go")
mdir = os.path.join(out, "memory")
os.makedirs(mdir, exist_ok=True)
with open(os.path.join(mdir, "database.go"), "w") as f:
    f.write(t)
overlay[src] = os.path.join(mdir, "database.go")

with open(os.path.join(out, "overlay.json"), "w") as f:
    json.dump({"Replace": overlay}, f, indent=1)
print("overlay: %d files" % len(overlay))
