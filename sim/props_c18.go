package sim

import (
	"context"
	"fmt"
	"math/rand/v2"
	"reflect"
	gotime "time"

	"github.com/yorkie-team/yorkie/api/types"
	"github.com/yorkie-team/yorkie/pkg/document"
	"github.com/yorkie-team/yorkie/pkg/document/crdt"
	yjson "github.com/yorkie-team/yorkie/pkg/document/json"
	"github.com/yorkie-team/yorkie/pkg/document/presence"
	"github.com/yorkie-team/yorkie/pkg/document/yson"
	"github.com/yorkie-team/yorkie/server/documents"
	"github.com/yorkie-team/yorkie/server/revisions"
)

// ysonRoundTrip checks one reachable document: export, text round trip,
// import into an empty document, export again.
func ysonRoundTrip(root *crdt.Object) (string, string) {
	v, err := yson.FromCRDT(root)
	if err != nil {
		return "export_failed", err.Error()
	}
	obj, ok := v.(yson.Object)
	if !ok {
		return "export_not_object", fmt.Sprintf("%T", v)
	}
	text, err := obj.Marshal()
	if err != nil {
		return "marshal_failed", err.Error()
	}
	var back yson.Object
	if err := yson.Unmarshal(text, &back); err != nil {
		return "unmarshal_failed", err.Error() + " for " + clip(text)
	}
	if !reflect.DeepEqual(normYSON(back), normYSON(obj)) {
		t2, _ := back.Marshal()
		return "text_round_trip_differs", fmt.Sprintf("%s\n  parsed back: %s", clip(text), clip(t2))
	}
	nd := document.New("yson-rt")
	var pv any
	err = func() (err error) {
		defer func() {
			if r := recover(); r != nil {
				pv = r
			}
		}()
		return nd.Update(func(r *yjson.Object, p *presence.Presence) error {
			r.SetYSON(back)
			return nil
		})
	}()
	if pv != nil {
		return "import_panicked", fmt.Sprint(pv)
	}
	if err != nil {
		return "import_failed", err.Error()
	}
	v2, err := yson.FromCRDT(nd.RootObject())
	if err != nil {
		return "re_export_failed", err.Error()
	}
	text2, err := v2.(yson.Object).Marshal()
	if err != nil {
		return "re_marshal_failed", err.Error()
	}
	if text2 != text {
		return "import_changes_content", fmt.Sprintf("%s\n  after import: %s", clip(text), clip(text2))
	}
	if nd.Marshal() != root.Marshal() {
		return "import_changes_json", fmt.Sprintf("%s\n  after import: %s", clip(root.Marshal()), clip(nd.Marshal()))
	}
	return "", ""
}

// normYSON makes empty and nil containers comparable.
func normYSON(v any) any {
	switch t := v.(type) {
	case yson.Object:
		m := map[string]any{}
		for k, x := range t {
			m[k] = normYSON(x)
		}
		return m
	case yson.Array:
		out := make([]any, 0, len(t))
		for _, x := range t {
			out = append(out, normYSON(x))
		}
		return out
	case yson.Text:
		var out []any
		for _, n := range t.Nodes {
			attrs := map[string]string{}
			for k, v := range n.Attributes {
				attrs[k] = v
			}
			out = append(out, []any{n.Value, attrs})
		}
		return out
	case yson.Tree:
		return normTreeNode(t.Root)
	case yson.Counter:
		return fmt.Sprintf("counter:%d:%v:%x", t.Type, t.Value, len(t.Registers))
	case gotime.Time:
		return fmt.Sprintf("date:%d", t.UnixMilli())
	}
	return v
}

func normTreeNode(n yson.TreeNode) any {
	attrs := map[string]string{}
	for k, v := range n.Attributes {
		attrs[k] = v
	}
	var ch []any
	for _, c := range n.Children {
		ch = append(ch, normTreeNode(c))
	}
	return []any{n.Type, n.Value, attrs, ch}
}

type ysonMonitor struct {
	prop    string
	revID   types.ID
	revJSON string
	revStep int
}

func (m *ysonMonitor) AfterStep(rc *RunCtx, i int, st *Step, res *StepResult) *Violation {
	switch st.Op {
	case "sync":
		if res.Err != nil || i%4 != 0 {
			return nil
		}
		sd := rc.W.Client(st.C).Docs[0]
		if sd == nil {
			return nil
		}
		rc.W.probe("yson_round_trip")
		if cls, detail := ysonRoundTrip(sd.Doc.RootObject()); cls != "" {
			return &Violation{Property: m.prop, Oracle: "yson_round_trip", Class: "yson_" + cls, Detail: fmt.Sprintf("client %d: %s", st.C, detail), Step: i}
		}
	case "revision":
		w := rc.W
		ctx := context.Background()
		info, err := w.mem.FindDocInfoByKey(ctx, w.Projects[0].ID, docKey(0))
		if err != nil {
			return nil
		}
		if st.Flag == "create" {
			if m.revID != "" {
				return nil
			}
			srv, _, err := rc.ServerDoc(0)
			if err != nil {
				return nil
			}
			var rev *types.RevisionSummary
			rc.W.RunFG(func() {
				rev, err = revisions.Create(context.WithValue(w.ctx, taskKey, w.nextFGTask()), w.gen.be, info.RefKey(), fmt.Sprintf("rev-%d", i), "sim")
			})
			if err != nil {
				return &Violation{Property: m.prop, Oracle: "revision_create_succeeds", Class: "revision_create_failed:" + normErr(err.Error()), Detail: err.Error(), Step: i}
			}
			m.revID, m.revJSON, m.revStep = rev.ID, srv, i
			rc.W.probe("revision_created")
		}
	}
	return nil
}

func (m *ysonMonitor) Final(rc *RunCtx) *Violation {
	w := rc.W
	ctx := context.Background()
	for _, sc := range rc.AttachedReplicas(0) {
		rc.W.probe("yson_round_trip")
		if cls, detail := ysonRoundTrip(sc.Docs[0].Doc.RootObject()); cls != "" {
			return &Violation{Property: m.prop, Oracle: "yson_round_trip", Class: "yson_" + cls, Detail: fmt.Sprintf("client %d: %s", sc.Idx, detail), Step: rc.I}
		}
	}
	info, err := w.mem.FindDocInfoByKey(ctx, w.Projects[0].ID, docKey(0))
	if err != nil {
		return nil
	}
	// ---- revision restore returns the content present at revision creation
	if m.revID != "" {
		var err error
		rc.W.RunFG(func() {
			err = revisions.Restore(context.WithValue(w.ctx, taskKey, w.nextFGTask()), w.gen.be, w.Projects[0], m.revID)
		})
		if err != nil {
			return &Violation{Property: m.prop, Oracle: "revision_restore_succeeds", Class: "revision_restore_failed:" + normErr(err.Error()), Detail: err.Error(), Step: rc.I}
		}
		rc.Quiesced = false
		if v := rc.Quiesce(); v != nil {
			return v
		}
		for _, sc := range rc.AttachedReplicas(0) {
			rc.W.probe("revision_restore_compared")
			if got := sc.Docs[0].Doc.Marshal(); got != m.revJSON {
				return &Violation{Property: m.prop, Oracle: "revision_restore_returns_revision_content", Class: "restored_content_differs",
					Detail: fmt.Sprintf("client %d after restore: %s\n  content at revision creation (step %d): %s", sc.Idx, clip(got), m.revStep, clip(m.revJSON)), Step: rc.I}
			}
		}
	}
	// ---- compaction of the detached document keeps content
	before, _, err := rc.ServerDoc(0)
	if err != nil {
		return nil
	}
	for _, sc := range rc.AttachedReplicas(0) {
		st := &Step{Op: "detach", C: sc.Idx}
		if sr := w.Exec(st); sr.Out != "ok" {
			return nil
		}
	}
	for _, sc := range append(append([]*SimClient(nil), w.Clients...), w.Graveyard...) {
		// clients that vanished are still attached on the server: compaction
		// would (rightly) be refused
		if sc != nil && sc.Closed {
			return nil
		}
	}
	w.DrainBackground()
	info, _ = w.mem.FindDocInfoByKey(ctx, w.Projects[0].ID, docKey(0))
	var compacted bool
	rc.W.RunFG(func() {
		compacted, err = documents.CompactDocument(context.WithValue(w.ctx, taskKey, w.nextFGTask()), w.gen.be, w.Projects[0], info, false)
	})
	if err != nil {
		return &Violation{Property: m.prop, Oracle: "compaction_rebuild_compare_succeeds", Class: "compaction_failed:" + normErr(err.Error()), Detail: err.Error(), Step: rc.I}
	}
	if !compacted {
		rc.W.probe("compaction_refused")
		return nil
	}
	rc.W.probe("compaction_done")
	after, _, err := rc.ServerDoc(0)
	if err != nil {
		return &Violation{Property: m.prop, Oracle: "compaction_keeps_content", Class: "rebuild_after_compaction_failed:" + normErr(err.Error()), Detail: err.Error(), Step: rc.I}
	}
	if after != before {
		return &Violation{Property: m.prop, Oracle: "compaction_keeps_content", Class: "compaction_changed_content",
			Detail: fmt.Sprintf("before %s\n  after %s", clip(before), clip(after)), Step: rc.I}
	}
	return nil
}

func c18Config(r *rand.Rand) *RunConfig {
	cfg := c01Config(false)(r)
	cfg.Clients = 2 + r.IntN(2)
	cfg.Kinds = swarmKinds(r, allKinds, "create", "text", "style", "tree", "treestyle", "cnt", "nest")
	if r.IntN(4) != 0 {
		delete(cfg.Kinds, "dcnt") // dedup counters meet finding dedup-counter-state-lost-in-set: a quarter of the runs keeps them
	}
	cfg.Kinds["utf16"] = 1
	cfg.Kinds["yson"] = 3
	cfg.W["revision"] = 2
	cfg.Extra["initial_root_pct"] = 30
	delete(cfg.W, "vanish")
	delete(cfg.W, "rejoin")
	return cfg
}

func c18Monitors(rc *RunCtx) []Monitor {
	return append(sessionMonitors("C18", true)(rc), &ysonMonitor{prop: "C18"})
}

func init() {
	Register(&Profile{Name: "c18_yson", Property: "C18", Config: c18Config, Next: SessionNext, Monitors: c18Monitors,
		Nontrivial: func(rc *RunCtx) bool {
			p := rc.W.Stats.Probes
			return p["yson_round_trip"] >= 2 && p["edit_applied"] >= 2
		}})
}
