package sim

import (
	"errors"
	"fmt"
	"sort"
	"strings"

	"github.com/yorkie-team/yorkie/pkg/attachable"
	"github.com/yorkie-team/yorkie/pkg/document/crdt"
)

// ---------------------------------------------------------------------------
// no failing step

// noFailMonitor: every client call that was not given an injected fault
// returns nil. After a fault the relaxation is narrow: that one call may
// fail with the injected class; nothing else may.
type noFailMonitor struct {
	prop string
	// allow decides whether an un-faulted failure is legitimate (documented
	// behaviour in the profile's model); nil = nothing is.
	allow func(rc *RunCtx, st *Step, res *StepResult) bool
}

func (m *noFailMonitor) AfterStep(rc *RunCtx, i int, st *Step, res *StepResult) *Violation {
	switch st.Op {
	case "activate", "deactivate", "attach", "detach", "remove", "sync":
	case "undo", "redo":
		if res.Err != nil {
			return &Violation{Property: m.prop, Oracle: "undo_redo_never_fails", Class: "undo_failed:" + normErr(res.Err.Error()),
				Detail: fmt.Sprintf("%s on client %d failed: %v", st.Op, st.C, res.Err), Step: i}
		}
		return nil
	case "update":
		if res.Err != nil && st.Fail == nil {
			if m.allow != nil && m.allow(rc, st, res) {
				return nil
			}
			return &Violation{Property: m.prop, Oracle: "valid_update_succeeds", Class: "update_failed:" + normErr(res.Err.Error()),
				Detail: fmt.Sprintf("update on client %d failed: %v", st.C, res.Err), Step: i}
		}
		return nil
	default:
		return nil
	}
	if res.Err == nil {
		return nil
	}
	if _, ex := rc.Excluded[st.C]; ex {
		return nil // the server ended this client's session on its own; the SDK finds out by failing
	}
	if i < len(rc.Trace) && rc.Trace[i].Op == "par" && st.Op != "par" && classify(res.Err) == "crash" {
		// the server process was killed inside this parallel section: calls in flight are lost
		for _, d := range rc.Trace[i].Sched {
			if strings.HasPrefix(d, "crash!") {
				return nil
			}
		}
	}
	if i < len(rc.Trace) && rc.Trace[i].Op == "par" && st.Op != "par" {
		// inside a parallel section the housekeeping task may end a silent client's
		// session between two of its calls (and the client may then deactivate itself,
		// so that afterwards nothing tells the two apart): being told so is legitimate
		for _, sub := range rc.Trace[i].Sub {
			if sub.Op == "housekeeping" && sub.Flag == "deactivate" {
				if msg := res.Err.Error(); strings.Contains(msg, "not attached") || strings.Contains(msg, "not activated") || strings.Contains(msg, "not active") {
					rc.W.probe("session_ended_by_housekeeping_inside_section")
					return nil
				}
			}
		}
	}
	faulted := st.Net != "" || st.DB != nil
	cls := classify(res.Err)
	if faulted && (cls == "net" || cls == "crash" || cls == "injected") {
		return nil
	}
	if m.allow != nil && m.allow(rc, st, res) {
		return nil
	}
	what := "unfaulted_call_failed"
	if faulted {
		what = "faulted_call_failed_with_foreign_error"
	}
	return &Violation{Property: m.prop, Oracle: "no_failing_step", Class: what + ":" + st.Op + ":" + normErr(res.Err.Error()),
		Detail: fmt.Sprintf("%s by client %d doc %d failed: %v", st.Op, st.C, st.D, res.Err), Step: i}
}

func (m *noFailMonitor) Final(rc *RunCtx) *Violation { return nil }

// ---------------------------------------------------------------------------
// clone == root

type cloneRootMonitor struct{ prop string }

func (m *cloneRootMonitor) check(rc *RunCtx, i int, only int) *Violation {
	for _, sc := range rc.W.Clients {
		if sc == nil || (only >= 0 && sc.Idx != only) {
			continue
		}
		for _, d := range sortedDocs(sc) {
			sd := sc.Docs[d]
			if sd.Doc.Status() == attachable.StatusRemoved {
				continue
			}
			rootJSON := sd.Doc.Root().Marshal()
			real := sd.Doc.Marshal()
			if rootJSON != real {
				return &Violation{Property: m.prop, Oracle: "clone_equals_root", Class: "clone_differs_from_root",
					Detail: fmt.Sprintf("client %d doc %d: Root()=%s Marshal()=%s", sc.Idx, d, clip(rootJSON), clip(real)), Step: i}
			}
		}
	}
	return nil
}

func (m *cloneRootMonitor) AfterStep(rc *RunCtx, i int, st *Step, res *StepResult) *Violation {
	switch st.Op {
	case "update", "undo", "redo", "sync", "attach", "detach":
		return m.check(rc, i, st.C)
	}
	return nil
}

func (m *cloneRootMonitor) Final(rc *RunCtx) *Violation { return m.check(rc, rc.I, -1) }

func errorsIs(err, target error) bool { return err != nil && errors.Is(err, target) }

func sortedDocs(sc *SimClient) []int {
	var ds []int
	for d := range sc.Docs {
		ds = append(ds, d)
	}
	sort.Ints(ds)
	return ds
}

func clip(s string) string {
	if len(s) > 600 {
		return s[:600] + "…"
	}
	return s
}

// ---------------------------------------------------------------------------
// convergence

type convergenceMonitor struct {
	prop   string
	server bool // also compare with the server's rebuilt document
	midRun bool
}

func (m *convergenceMonitor) AfterStep(rc *RunCtx, i int, st *Step, res *StepResult) *Violation {
	if !m.midRun {
		return nil
	}
	switch st.Op {
	case "sync", "attach":
	default:
		return nil
	}
	// Two replicas that have seen exactly the same set of changes (equal
	// version vectors) must show the same content, whenever that happens.
	d := st.D
	groups := map[string][]*SimClient{}
	for _, sc := range rc.W.Clients {
		if sc == nil {
			continue
		}
		sd := sc.Docs[d]
		if sd == nil || sd.Doc.Status() != attachable.StatusAttached || sd.Opts.WireNoGC {
			continue
		}
		vv := sd.Doc.VersionVector().Marshal()
		groups[vv] = append(groups[vv], sc)
	}
	for _, g := range groups {
		if len(g) < 2 {
			continue
		}
		rc.W.probe("midrun_same_vector_compared")
		ref := g[0].Docs[d].Doc.Marshal()
		for _, sc := range g[1:] {
			if got := sc.Docs[d].Doc.Marshal(); got != ref {
				return &Violation{Property: m.prop, Oracle: "same_changes_same_content", Class: "diverged_at_equal_vector",
					Detail: fmt.Sprintf("doc %d: clients %d and %d have the same version vector but differ:\n  %s\n  %s", d, g[0].Idx, sc.Idx, clip(ref), clip(got)), Step: i}
			}
		}
	}
	return nil
}

func (m *convergenceMonitor) Final(rc *RunCtx) *Violation {
	for d := 0; d < rc.Cfg.Docs; d++ {
		reps := rc.AttachedReplicas(d)
		if len(reps) == 0 {
			continue
		}
		ref := reps[0].Docs[d].Doc.Marshal()
		for _, sc := range reps[1:] {
			got := sc.Docs[d].Doc.Marshal()
			if got != ref {
				return &Violation{Property: m.prop, Oracle: "replicas_converge", Class: "replicas_diverged",
					Detail: fmt.Sprintf("doc %d after quiescence: client %d: %s\n  client %d: %s", d, reps[0].Idx, clip(ref), sc.Idx, clip(got)), Step: rc.I}
			}
		}
		if len(reps) >= 2 {
			rc.W.probe("final_replicas_compared")
		}
		if m.server {
			srv, _, err := rc.ServerDoc(d)
			if err != nil {
				return &Violation{Property: m.prop, Oracle: "server_rebuild_succeeds", Class: "server_rebuild_failed:" + normErr(err.Error()),
					Detail: fmt.Sprintf("doc %d: BuildInternalDocForServerSeq(head) failed: %v%s%s", d, err, describeLog(rc, d), debugRebuild(rc, d)), Step: rc.I}
			}
			if srv != ref {
				return &Violation{Property: m.prop, Oracle: "server_equals_replicas", Class: "server_rebuild_differs",
					Detail: fmt.Sprintf("doc %d: server %s\n  client %d: %s", d, clip(srv), reps[0].Idx, clip(ref)), Step: rc.I}
			}
		}
	}
	return nil
}

// structure reveals the CRDT structure of the root (tombstones included) for
// the checks that must look below visible content.
func structure(root *crdt.Object) string {
	var sb strings.Builder
	root.Descendants(func(e crdt.Element, _ crdt.Container) bool {
		switch t := e.(type) {
		case *crdt.Text:
			sb.WriteString(t.ToTestString())
		case *crdt.Array:
			sb.WriteString(t.ToTestString())
		}
		return false
	})
	return sb.String()
}
