package sim

import (
	"encoding/json"
	"fmt"
	"regexp"
	"strconv"
	"strings"
	gotime "time"

	"github.com/yorkie-team/yorkie/pkg/document/crdt"
	yjson "github.com/yorkie-team/yorkie/pkg/document/json"
	"github.com/yorkie-team/yorkie/pkg/document/presence"
)

// Val is a primitive value in a trace.
type Val struct {
	T string  `json:"t"` // null bool int long double str bytes date
	I int64   `json:"i,omitempty"`
	S string  `json:"s,omitempty"`
	F float64 `json:"f,omitempty"`
	B bool    `json:"b,omitempty"`
}

// Edit is one call of the public editing API inside an Update callback. The
// target container is addressed by path; indices are reduced modulo the
// current length when the edit runs, and an edit whose target is gone or has
// another type is a no-op. That makes every subsequence of a trace runnable.
type Edit struct {
	K     string            `json:"k"`
	P     []string          `json:"p,omitempty"` // "key" or "#index"
	Key   string            `json:"key,omitempty"`
	T     string            `json:"t,omitempty"` // element type for *.new
	I     int               `json:"i,omitempty"`
	J     int               `json:"j,omitempty"`
	L     int               `json:"l,omitempty"`
	S     string            `json:"s,omitempty"`
	V     *Val              `json:"v,omitempty"`
	A     map[string]string `json:"a,omitempty"`
	R     []string          `json:"r,omitempty"`
	Path  []int             `json:"path,omitempty"`
	Path2 []int             `json:"path2,omitempty"`
	Y     string            `json:"y,omitempty"` // YSON literal
}

// Fail describes how an Update callback fails (C08).
type Fail struct {
	Mode  string `json:"mode"`  // error | panic
	After int    `json:"after"` // number of edits applied before failing
}

// Step is one scheduler decision, written down so that it can be replayed and
// minimised without the PRNG.
type Step struct {
	Op    string    `json:"op"`
	C     int       `json:"c,omitempty"`
	D     int       `json:"d,omitempty"`
	Edits []Edit    `json:"edits,omitempty"`
	Fail  *Fail     `json:"fail,omitempty"`
	Net   string    `json:"net,omitempty"`
	DB    *DBFault  `json:"db,omitempty"`
	Flag  string    `json:"flag,omitempty"`
	I     int       `json:"i,omitempty"`
	J     int       `json:"j,omitempty"`
	Dur   string    `json:"dur,omitempty"`
	Opts  *AttachOp `json:"opts,omitempty"`
	Sub   []Step    `json:"sub,omitempty"` // op "par": the steps that run concurrently (I = schedule seed)
	// Sched is the schedule of a parallel section as it was decided (one entry per
	// decision: "<task>@<yield point>", "tick+<n>ms", "<task>!announce"). A replay follows
	// it; entries naming a task that is gone are skipped, and after its end the seeded
	// scheduler decides again.
	Sched []string `json:"sched,omitempty"`
}

// AttachOp are the options of one Attach call.
type AttachOp struct {
	WireNoGC    bool              `json:"wire_nogc,omitempty"`
	LocalNoGC   bool              `json:"local_nogc,omitempty"`
	NoPresence  bool              `json:"no_presence,omitempty"`
	Presence    map[string]string `json:"presence,omitempty"`
	InitialRoot string            `json:"initial_root,omitempty"` // YSON object literal
}

func (s Step) String() string {
	s.Sched = nil
	b, _ := json.Marshal(s)
	return string(b)
}

func mod(i, n int) int {
	if n <= 0 {
		return 0
	}
	return ((i % n) + n) % n
}

// resolve walks the path on the acting replica. It returns the crdt element
// wrapped in its json proxy, or nil.
func resolve(root *yjson.Object, path []string) any {
	var cur any = root
	for _, pe := range path {
		switch c := cur.(type) {
		case *yjson.Object:
			if strings.HasPrefix(pe, "#") {
				return nil
			}
			cur = childOfObject(c, pe)
		case *yjson.Array:
			if !strings.HasPrefix(pe, "#") {
				return nil
			}
			n, err := strconv.Atoi(pe[1:])
			if err != nil || c.Len() == 0 {
				return nil
			}
			cur = childOfArray(c, mod(n, c.Len()))
		default:
			return nil
		}
		if cur == nil {
			return nil
		}
	}
	return cur
}

func childOfObject(o *yjson.Object, k string) any {
	if !o.Has(k) {
		return nil
	}
	switch o.Object.Get(k).(type) {
	case *crdt.Object:
		return o.GetObject(k)
	case *crdt.Array:
		return o.GetArray(k)
	case *crdt.Text:
		return o.GetText(k)
	case *crdt.Counter:
		return o.GetCounter(k)
	case *crdt.Tree:
		return o.GetTree(k)
	case *crdt.Primitive:
		return o.Object.Get(k)
	}
	return nil
}

func childOfArray(a *yjson.Array, i int) any {
	switch e := a.Get(i).(type) {
	case *crdt.Object:
		return a.GetObject(i)
	case *crdt.Array:
		return a.GetArray(i)
	case *crdt.Text:
		return a.GetText(i)
	case *crdt.Counter:
		return a.GetCounter(i)
	case *crdt.Tree:
		return a.GetTree(i)
	case *crdt.Primitive:
		return e
	}
	return nil
}

func setVal(o *yjson.Object, k string, v *Val) {
	switch v.T {
	case "null":
		o.SetNull(k)
	case "bool":
		o.SetBool(k, v.B)
	case "int":
		o.SetInteger(k, int(int32(v.I)))
	case "long":
		o.SetLong(k, v.I)
	case "double":
		o.SetDouble(k, v.F)
	case "str":
		o.SetString(k, v.S)
	case "bytes":
		o.SetBytes(k, []byte(v.S))
	case "date":
		o.SetDate(k, gotime.UnixMilli(v.I).UTC())
	}
}

func addVal(a *yjson.Array, v *Val) {
	switch v.T {
	case "null":
		a.AddNull()
	case "bool":
		a.AddBool(v.B)
	case "int":
		a.AddInteger(int(int32(v.I)))
	case "long":
		a.AddLong(v.I)
	case "double":
		a.AddDouble(v.F)
	case "str":
		a.AddString(v.S)
	case "bytes":
		a.AddBytes([]byte(v.S))
	case "date":
		a.AddDate(gotime.UnixMilli(v.I).UTC())
	}
}

// applyEdit performs one edit; it reports whether the edit was applicable.
func applyEdit(root *yjson.Object, p *presence.Presence, e *Edit) bool {
	if strings.HasPrefix(e.K, "p.") {
		switch e.K {
		case "p.set":
			p.Set(e.Key, e.S)
		case "p.del":
			p.Delete(e.Key)
		case "p.clear":
			p.Clear()
		default:
			return false
		}
		return true
	}
	if strings.HasPrefix(e.K, "cons.") {
		return applyConsEdit(root, e)
	}
	tgt := resolve(root, e.P)
	if tgt == nil {
		return false
	}
	switch t := tgt.(type) {
	case *yjson.Object:
		return applyObjectEdit(t, e)
	case *yjson.Array:
		return applyArrayEdit(t, e)
	case *yjson.Text:
		return applyTextEdit(t, e)
	case *yjson.Counter:
		return applyCounterEdit(t, e)
	case *yjson.Tree:
		return applyTreeEdit(t, e)
	}
	return false
}

func applyObjectEdit(o *yjson.Object, e *Edit) bool {
	switch e.K {
	case "o.set":
		if e.V == nil {
			return false
		}
		setVal(o, e.Key, e.V)
	case "o.del":
		if !o.Has(e.Key) {
			return false
		}
		o.Delete(e.Key)
	case "o.new":
		switch e.T {
		case "obj":
			o.SetNewObject(e.Key)
		case "arr":
			o.SetNewArray(e.Key)
		case "text":
			o.SetNewText(e.Key)
		case "cnt":
			o.SetNewCounter(e.Key, int(int32(e.I)))
		case "lcnt":
			o.SetNewCounter(e.Key, int64(e.I))
		case "dcnt":
			o.SetNewDedupCounter(e.Key)
		case "tree":
			o.SetNewTree(e.Key, *defaultTreeRoot(e.I))
		default:
			return false
		}
	case "o.yson":
		v, err := parseYSON(e.Y)
		if err != nil {
			return false
		}
		o.SetYSONElement(e.Key, v)
	default:
		return false
	}
	return true
}

func applyArrayEdit(a *yjson.Array, e *Edit) bool {
	n := a.Len()
	switch e.K {
	case "a.add":
		if e.V == nil {
			return false
		}
		addVal(a, e.V)
	case "a.new":
		switch e.T {
		case "obj":
			a.AddNewObject()
		case "arr":
			a.AddNewArray()
		case "text":
			a.AddNewText()
		case "cnt":
			a.AddNewCounter(crdt.IntegerCnt, int(int32(e.I)))
		case "lcnt":
			a.AddNewCounter(crdt.LongCnt, int64(e.I))
		default:
			return false
		}
	case "a.ins":
		if n == 0 || e.V == nil {
			return false
		}
		if e.V.T == "str" {
			a.InsertStringAfter(mod(e.I, n), e.V.S)
		} else {
			a.InsertIntegerAfter(mod(e.I, n), int(int32(e.V.I)))
		}
	case "a.del":
		if n == 0 {
			return false
		}
		a.Delete(mod(e.I, n))
	case "a.set":
		if n == 0 || e.V == nil {
			return false
		}
		if e.V.T == "str" {
			a.SetString(mod(e.I, n), e.V.S)
		} else {
			a.SetInteger(mod(e.I, n), int(int32(e.V.I)))
		}
	case "a.mva":
		if n < 2 {
			return false
		}
		prev, tg := mod(e.I, n), mod(e.J, n)
		if prev == tg {
			return false
		}
		a.MoveAfterByIndex(prev, tg)
	case "a.mvb":
		if n < 2 {
			return false
		}
		next, tg := mod(e.I, n), mod(e.J, n)
		if next == tg {
			return false
		}
		a.MoveBefore(a.Get(next).CreatedAt(), a.Get(tg).CreatedAt())
	case "a.mvf":
		if n < 2 {
			return false
		}
		tg := mod(e.J, n)
		if tg == 0 {
			return false
		}
		a.MoveFront(a.Get(tg).CreatedAt())
	case "a.mvl":
		if n < 2 {
			return false
		}
		tg := mod(e.J, n)
		if tg == n-1 {
			return false
		}
		a.MoveLast(a.Get(tg).CreatedAt())
	default:
		return false
	}
	return true
}

func textLen(t *yjson.Text) int {
	n := 0
	for _, node := range t.Nodes() {
		n += node.Len()
	}
	return n
}

func applyTextEdit(t *yjson.Text, e *Edit) bool {
	n := textLen(t)
	from, to := mod(e.I, n+1), mod(e.J, n+1)
	if from > to {
		from, to = to, from
	}
	switch e.K {
	case "t.edit":
		if e.L > 0 && to-from > e.L {
			to = from + e.L
		}
		if from == to && e.S == "" {
			return false
		}
		if e.A != nil {
			t.Edit(from, to, e.S, e.A)
		} else {
			t.Edit(from, to, e.S)
		}
	case "t.style":
		if from == to || len(e.A) == 0 {
			return false
		}
		t.Style(from, to, e.A)
	default:
		return false
	}
	return true
}

func applyCounterEdit(c *yjson.Counter, e *Edit) bool {
	switch e.K {
	case "c.inc":
		if c.Counter.IsDedup() || e.V == nil {
			return false
		}
		c.Increase(int(e.V.I))
	case "c.dadd":
		if !c.Counter.IsDedup() || e.S == "" {
			return false
		}
		c.Add(e.S)
	default:
		return false
	}
	return true
}

func describeErr(err error) string {
	if err == nil {
		return "ok"
	}
	return "err:" + normErr(err.Error())
}

// normErr strips what differs between otherwise identical executions:
// object ids and pointer values.
func normErr(s string) string {
	var sb strings.Builder
	isHex := func(c byte) bool { return (c >= '0' && c <= '9') || (c >= 'a' && c <= 'f') }
	i := 0
	for i < len(s) {
		if isHex(s[i]) {
			j := i
			for j < len(s) && isHex(s[j]) {
				j++
			}
			if j-i >= 10 {
				sb.WriteString("<id>")
			} else {
				sb.WriteString(s[i:j])
			}
			i = j
			continue
		}
		sb.WriteByte(s[i])
		i++
	}
	out := sb.String()
	if i := strings.Index(out, "should be found:"); i >= 0 {
		out = out[:i+len("should be found")] // a dump of the structure follows
	}
	out = strings.ReplaceAll(out, "0x<id>", "<ptr>")
	out = ticketRe.ReplaceAllString(out, "<ticket>")
	if len(out) > 300 {
		out = out[:300]
	}
	return out
}

var ticketRe = regexp.MustCompile(`\d+:\d+:[A-Za-z0-9_+/=-]{8,}(:\d+)?`)

func (e *Edit) String() string { return fmt.Sprintf("%s%v", e.K, e.P) }
