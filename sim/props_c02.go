package sim

import (
	"context"
	"fmt"
	"math/rand/v2"

	"github.com/yorkie-team/yorkie/pkg/attachable"
	"github.com/yorkie-team/yorkie/pkg/document"
	"github.com/yorkie-team/yorkie/pkg/document/change"
	"github.com/yorkie-team/yorkie/server/packs"
)

func c02Config(faults bool) func(r *rand.Rand) *RunConfig {
	return func(r *rand.Rand) *RunConfig {
		cfg := &RunConfig{
			Clients:           2 + r.IntN(4),
			Docs:              1,
			Projects:          1,
			Steps:             swarmSteps(r),
			SnapshotThreshold: pickN(r, []int64{1, 2, 3, 5, 10, 10}),
			SnapshotInterval:  pickN(r, []int64{1, 2, 3, 5, 10, 500}),
			SnapshotCacheSize: int(pickN(r, []int64{1, 10})),
			Kinds:             swarmKinds(r, allKinds, "create"),
			W:                 baseWeights(r),
			Extra:             map[string]int{"late_attach_pct": 60, "attach_presence": 50},
		}
		cfg.W["offline"] = 2 + r.IntN(5) // falling behind the threshold is the point
		cfg.W["cache_purge"] = r.IntN(4)
		cfg.W["rebuild"] = 1 + r.IntN(3)
		switch r.IntN(3) {
		case 0: // eager background work
			cfg.W["bgdrain"] = 10
			cfg.BGPolicy = "eager"
		case 1: // starved: snapshots are written late or never
			cfg.W["bg"], cfg.W["bgdrain"] = 0, 0
			cfg.BGPolicy = "starved"
		default:
			cfg.BGPolicy = "lazy"
		}
		if r.IntN(3) == 0 {
			cfg.W["vanish"] = 1
			cfg.W["rejoin"] = 1
		}
		if faults {
			cfg.W["restart"] = 1 + r.IntN(3)
			// storage faults inside a PushPull belong to C05 (and meet its
			// known duplicate window); here the faults are the ones that
			// matter for snapshots: lost messages, restarts with a cold
			// cache and lost background work
			cfg.FaultKinds = subset(r, []string{"drop_resp", "drop_req"})
			cfg.FaultRate = 30 + r.IntN(120)
			cfg.Extra["max_faults"] = 1 + r.IntN(4)
		}
		applyKnownFindingSplits(r, cfg)
		return cfg
	}
}

// snapshotMonitor counts how replicas were fed and compares the server's
// rebuilt document (cache as it is, and after a purge) with the replicas.
type snapshotMonitor struct {
	prop string
	fed  map[int]string // client -> "snapshot" | "changes"
}

func (m *snapshotMonitor) tap(rc *RunCtx) func(ev *WireEvent) {
	return func(ev *WireEvent) {
		if !ev.OK || ev.Resp == nil {
			return
		}
		if len(ev.Resp.Snapshot) > 0 {
			rc.W.probe("snapshot_pull")
			if ev.Req != nil && ev.Req.HasChanges() {
				rc.W.probe("snapshot_pull_with_unsent_changes")
			}
			if ev.Proc == "AttachDocument" {
				rc.W.probe("snapshot_pull_at_attach")
			}
			if !ev.Lost {
				m.fed[ev.Client] = "snapshot"
			}
		} else if len(ev.Resp.Changes) > 0 {
			rc.W.probe("change_pull")
		}
	}
}

func (m *snapshotMonitor) rebuildCheck(rc *RunCtx, i int, d int, purge bool) *Violation {
	w := rc.W
	ctx := context.Background()
	info, err := w.mem.FindDocInfoByKey(ctx, w.Projects[0].ID, docKey(d))
	if err != nil {
		return nil // document does not exist yet
	}
	if info.ServerSeq == 0 {
		return nil
	}
	seqs := []int64{info.ServerSeq}
	if info.ServerSeq > 2 {
		// a deterministic earlier point
		seqs = append(seqs, 1+int64(i)%info.ServerSeq)
	}
	for _, s := range seqs {
		warm, err := packs.BuildInternalDocForServerSeq(ctx, w.gen.be, info, s)
		if err != nil {
			return &Violation{Property: m.prop, Oracle: "server_rebuild_succeeds", Class: "server_rebuild_failed:" + normErr(err.Error()),
				Detail: fmt.Sprintf("BuildInternalDocForServerSeq(%d) failed: %v%s", s, err, describeLog(rc, d)), Step: i}
		}
		if purge {
			w.gen.be.Cache.Snapshot.Purge()
			cold, err := packs.BuildInternalDocForServerSeq(ctx, w.gen.be, info, s)
			if err != nil {
				return &Violation{Property: m.prop, Oracle: "server_rebuild_succeeds", Class: "server_rebuild_failed_cold:" + normErr(err.Error()),
					Detail: fmt.Sprintf("BuildInternalDocForServerSeq(%d) after cache purge failed: %v", s, err), Step: i}
			}
			w.probe("rebuild_warm_vs_cold_compared")
			if warm.Marshal() != cold.Marshal() {
				return &Violation{Property: m.prop, Oracle: "cache_transparent_rebuild", Class: "rebuild_warm_differs_from_cold",
					Detail: fmt.Sprintf("seq %d: with cache %s\n  after purge %s", s, clip(warm.Marshal()), clip(cold.Marshal())), Step: i}
			}
		}
		// any replica that has seen exactly the same changes must agree
		vv := warm.VersionVector().Marshal()
		for _, sc := range w.Clients {
			if sc == nil {
				continue
			}
			sd := sc.Docs[d]
			if sd == nil || sd.Doc.Status() != attachable.StatusAttached || sd.Opts.WireNoGC || sd.Doc.HasLocalChanges() {
				continue
			}
			if sd.Doc.VersionVector().Marshal() != vv {
				continue
			}
			w.probe("rebuild_vs_replica_compared")
			if got := sd.Doc.Marshal(); got != warm.Marshal() {
				return &Violation{Property: m.prop, Oracle: "snapshot_equals_replay", Class: "server_rebuild_differs_from_replica",
					Detail: fmt.Sprintf("seq %d: server %s\n  client %d (%s-fed) %s", s, clip(warm.Marshal()), sc.Idx, m.fed[sc.Idx], clip(got)), Step: i}
			}
		}
	}
	return nil
}

func (m *snapshotMonitor) AfterStep(rc *RunCtx, i int, st *Step, res *StepResult) *Violation {
	if st.Op == "rebuild" {
		return m.rebuildCheck(rc, i, st.D, st.Flag == "purge")
	}
	return nil
}

func (m *snapshotMonitor) Final(rc *RunCtx) *Violation {
	for d := 0; d < rc.Cfg.Docs; d++ {
		if v := m.rebuildCheck(rc, rc.I, d, true); v != nil {
			return v
		}
	}
	return nil
}

func c02Monitors(rc *RunCtx) []Monitor {
	sm := &snapshotMonitor{prop: "C02", fed: map[int]string{}}
	rc.W.wireTaps = append(rc.W.wireTaps, sm.tap(rc))
	return append(sessionMonitors("C02", true)(rc), sm)
}

func nontrivialSnapshot(rc *RunCtx) bool {
	p := rc.W.Stats.Probes
	return p["final_replicas_compared"] > 0 && p["snapshot_pull"] > 0 && p["edit_applied"] >= 2
}

func init() {
	Register(&Profile{Name: "c02_snapshots", Property: "C02", Config: c02Config(false), Next: SessionNext,
		Monitors: c02Monitors, Nontrivial: nontrivialSnapshot})
	Register(&Profile{Name: "c02_snapshots_faults", Property: "C02", Config: c02Config(true), Next: SessionNext,
		Monitors: c02Monitors, Nontrivial: nontrivialSnapshot})
}

// describeLog lists the stored changes of a document (for violation details).
func describeLog(rc *RunCtx, d int) string {
	ctx := context.Background()
	w := rc.W
	info, err := w.mem.FindDocInfoByKey(ctx, w.Projects[0].ID, docKey(d))
	if err != nil {
		return ""
	}
	chs, err := w.mem.FindChangesBetweenServerSeqs(ctx, info.RefKey(), 1, info.ServerSeq)
	if err != nil {
		return err.Error()
	}
	out := ""
	for _, c := range chs {
		out += fmt.Sprintf("\n    seq=%d actor=%s cseq=%d lamport=%d ops=[", c.ServerSeq(), rankVV(rc, c.ID().ActorID().String()), c.ClientSeq(), c.ID().Lamport())
		for _, op := range c.Operations() {
			out += rankVV(rc, fmt.Sprintf("%T{parent=%s at=%s} ", op, op.ParentCreatedAt().ToTestString(), op.ExecutedAt().ToTestString()))
		}
		out += "]"
	}
	for s := info.ServerSeq; s >= 0; s-- {
		si, err := w.mem.FindClosestSnapshotInfo(ctx, info.RefKey(), s, false)
		if err == nil && si.ServerSeq > 0 {
			out += fmt.Sprintf("\n    closest snapshot <= %d: @%d", s, si.ServerSeq)
			s = si.ServerSeq
		}
	}
	return out
}

// debugRebuild re-does the server's rebuild by hand to say where it fails.
func debugRebuild(rc *RunCtx, d int) string {
	ctx := context.Background()
	w := rc.W
	info, err := w.mem.FindDocInfoByKey(ctx, w.Projects[0].ID, docKey(d))
	if err != nil {
		return ""
	}
	out := ""
	if cached, ok := w.gen.be.Cache.Snapshot.Get(info.RefKey()); ok {
		out += fmt.Sprintf("\n    cache holds doc@%d", cached.Checkpoint().ServerSeq)
	}
	for _, from := range []int64{info.ServerSeq, 0} {
		si, err := w.mem.FindClosestSnapshotInfo(ctx, info.RefKey(), from, true)
		if err != nil {
			out += "\n    snapshot lookup: " + err.Error()
			continue
		}
		doc, err := document.NewInternalDocumentFromSnapshot(info.Key, si.ServerSeq, si.Lamport, si.VersionVector, si.Snapshot)
		if err != nil {
			out += fmt.Sprintf("\n    from snapshot@%d: restore failed: %v", si.ServerSeq, err)
			continue
		}
		chs, _ := w.mem.FindChangesBetweenServerSeqs(ctx, info.RefKey(), si.ServerSeq+1, info.ServerSeq)
		ok := true
		for _, c := range chs {
			if err := doc.ApplyChangePack(change.NewPack(info.Key, change.InitialCheckpoint.NextServerSeq(c.ServerSeq()), []*change.Change{c}, nil, nil), true); err != nil {
				out += fmt.Sprintf("\n    from snapshot@%d: change seq=%d fails: %v", si.ServerSeq, c.ServerSeq(), err)
				ok = false
				break
			}
		}
		if ok {
			out += fmt.Sprintf("\n    from snapshot@%d: replay of %d changes ok: %s", si.ServerSeq, len(chs), clip(doc.Marshal()))
		}
	}
	return out
}
