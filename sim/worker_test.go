package sim

import (
	"bufio"
	"encoding/json"
	"os"
	"strconv"
	"testing"
	"time"
)

// WorkerSpec tells one worker process what to run.
type WorkerSpec struct {
	Profiles     []string `json:"profiles"`
	SeedBase     uint64   `json:"seed_base"`
	Start        int      `json:"start"`
	Count        int      `json:"count"`
	Stride       int      `json:"stride"`
	Out          string   `json:"out"`
	Deadline     int64    `json:"deadline_unix"`
	KeepLog      bool     `json:"keep_log"`
	Samples      int      `json:"samples"`
	Replay       string   `json:"replay"` // replay file instead of generation
	Minimise     bool     `json:"minimise"`
	MinBudgetSec int      `json:"min_budget_sec"`
	ReplayDir    string   `json:"replay_dir"`
	// MinCandidates bounds minimisation by a number of candidate executions, so that
	// the minimised trace does not depend on the load of the machine.
	MinCandidates int `json:"min_candidates"`
	// TraceOut: every step is appended to this file BEFORE it is executed (used by the
	// driver to recover the trace of a run that killed the process).
	TraceOut string `json:"trace_out"`
	// VerifyReplay: every generated run is executed a second time from its recorded
	// trace alone (no generator, no PRNG for the steps); the event logs must be equal.
	VerifyReplay bool `json:"verify_replay"`
	// MinOncePrefixes: violation classes (by prefix) whose known-finding keys do not need a
	// minimised trace; only the first violation of each such class is minimised in a
	// process (every minimisation is hundreds of bubbles, and a process slows down with
	// every bubble it has ever run).
	MinOncePrefixes []string `json:"min_once_prefixes"`
	// GenSeed: generate exactly this run (the seed a report names) instead of a range of indices.
	GenSeed uint64 `json:"gen_seed"`
}

var minimisedOnce = map[string]bool{}

func mix(base uint64, i int) uint64 {
	x := base + uint64(i)*0x9e3779b97f4a7c15
	x ^= x >> 30
	x *= 0xbf58476d1ce4e5b9
	x ^= x >> 27
	x *= 0x94d049bb133111eb
	x ^= x >> 31
	return x
}

func TestWorker(t *testing.T) {
	specPath := os.Getenv("VERIF_SPEC")
	if specPath == "" {
		t.Skip("VERIF_SPEC not set")
	}
	b, err := os.ReadFile(specPath)
	if err != nil {
		t.Fatal(err)
	}
	var spec WorkerSpec
	if err := json.Unmarshal(b, &spec); err != nil {
		t.Fatal(err)
	}
	InitProcess()
	WarmUp(t)
	f, err := os.Create(spec.Out)
	if err != nil {
		t.Fatal(err)
	}
	defer f.Close()
	hb := spec.Out + ".hb"
	n := 0
	Heartbeat = func() {
		n++
		_ = os.WriteFile(hb, []byte(strconv.Itoa(n)), 0o644)
	}
	bw := bufio.NewWriter(f)
	defer bw.Flush()
	enc := json.NewEncoder(bw)

	if spec.TraceOut != "" {
		tf, err := os.Create(spec.TraceOut)
		if err != nil {
			t.Fatal(err)
		}
		defer tf.Close()
		tenc := json.NewEncoder(tf)
		StepSink = func(kind string, v any) {
			_ = tenc.Encode(map[string]any{"kind": kind, "v": v})
		}
	}
	if spec.Replay != "" {
		rr := ReplayFile(t, spec.Replay, spec.KeepLog)
		if rr.Violation != nil && spec.Minimise {
			rr = MinimiseN(t, ProfileByName(rr.Profile), rr, spec.MinBudgetSec, spec.MinCandidates)
			if spec.ReplayDir != "" {
				rr.ReplayPath = WriteReplay(spec.ReplayDir, rr)
			}
		}
		_ = enc.Encode(rr)
		return
	}
	var ps []*Profile
	for _, n := range spec.Profiles {
		p := ProfileByName(n)
		if p == nil {
			t.Fatalf("unknown profile %q", n)
		}
		ps = append(ps, p)
	}
	if spec.GenSeed != 0 {
		rr := RunOne(t, ps[0], RunOpts{Seed: spec.GenSeed, KeepLog: spec.KeepLog})
		if rr.Violation != nil && spec.Minimise {
			rr = MinimiseN(t, ps[0], rr, spec.MinBudgetSec, spec.MinCandidates)
			if spec.ReplayDir != "" {
				rr.ReplayPath = WriteReplay(spec.ReplayDir, rr)
			}
		}
		_ = enc.Encode(rr)
		return
	}
	stride := spec.Stride
	if stride <= 0 {
		stride = 1
	}
	samples := 0
	for k := 0; k < spec.Count; k++ {
		if spec.Deadline > 0 && time.Now().Unix() >= spec.Deadline {
			break
		}
		i := spec.Start + k*stride
		p := ps[i%len(ps)]
		seed := mix(spec.SeedBase, i)
		CurrentIndex = i
		rr := RunOne(t, p, RunOpts{Seed: seed, KeepLog: spec.KeepLog})
		if spec.VerifyReplay && rr.Infra == "" {
			r2 := RunOne(t, p, RunOpts{Seed: seed, Config: rr.Config, Trace: rr.Trace, Replay: true, KeepLog: spec.KeepLog})
			if r2.LogHash != rr.LogHash {
				rr.Infra = "replay of the recorded trace gives a different event log: " + r2.LogHash + " vs " + rr.LogHash
				if spec.KeepLog {
					for k := 0; k < len(rr.LogLines) && k < len(r2.LogLines); k++ {
						if rr.LogLines[k] != r2.LogLines[k] {
							rr.Infra += "\n first differing line " + rr.LogLines[k] + "\n   vs " + r2.LogLines[k]
							break
						}
					}
				}
			}
		}
		if rr.Violation != nil {
			skip := false
			for _, pre := range spec.MinOncePrefixes {
				if len(rr.Violation.Class) >= len(pre) && rr.Violation.Class[:len(pre)] == pre {
					if minimisedOnce[rr.Violation.Class] {
						skip = true
					}
					minimisedOnce[rr.Violation.Class] = true
				}
			}
			if spec.Minimise && !skip {
				rr = MinimiseN(t, p, rr, spec.MinBudgetSec, spec.MinCandidates)
			} else if skip {
				rr.Unminimised = true
				rr.OrigSteps = len(rr.Trace)
			}
			if spec.ReplayDir != "" {
				rr.ReplayPath = WriteReplay(spec.ReplayDir, rr)
			}
		}
		keepTrace := rr.Violation != nil || (samples < spec.Samples && rr.Nontrivial)
		if keepTrace && rr.Violation == nil {
			samples++
		}
		if !keepTrace {
			rr.Trace, rr.Outs = nil, nil
			rr.Config = nil
		}
		rr.Index = i
		if err := enc.Encode(rr); err != nil {
			t.Fatal(err)
		}
		bw.Flush()
	}
}
