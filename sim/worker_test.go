package sim

import (
	"bufio"
	"encoding/json"
	"os"
	"testing"
	"time"
)

// WorkerSpec tells one worker process what to run.
type WorkerSpec struct {
	Profiles     []string `json:"profiles"`
	SeedBase     uint64   `json:"seed_base"`
	Start        int      `json:"start"`
	Count        int      `json:"count"`
	Stride       int      `json:"stride"`
	Out          string   `json:"out"`
	Deadline     int64    `json:"deadline_unix"`
	KeepLog      bool     `json:"keep_log"`
	Samples      int      `json:"samples"`
	Replay       string   `json:"replay"` // replay file instead of generation
	Minimise     bool     `json:"minimise"`
	MinBudgetSec int      `json:"min_budget_sec"`
	ReplayDir    string   `json:"replay_dir"`
}

func mix(base uint64, i int) uint64 {
	x := base + uint64(i)*0x9e3779b97f4a7c15
	x ^= x >> 30
	x *= 0xbf58476d1ce4e5b9
	x ^= x >> 27
	x *= 0x94d049bb133111eb
	x ^= x >> 31
	return x
}

func TestWorker(t *testing.T) {
	specPath := os.Getenv("VERIF_SPEC")
	if specPath == "" {
		t.Skip("VERIF_SPEC not set")
	}
	b, err := os.ReadFile(specPath)
	if err != nil {
		t.Fatal(err)
	}
	var spec WorkerSpec
	if err := json.Unmarshal(b, &spec); err != nil {
		t.Fatal(err)
	}
	InitProcess()
	WarmUp(t)
	f, err := os.Create(spec.Out)
	if err != nil {
		t.Fatal(err)
	}
	defer f.Close()
	bw := bufio.NewWriter(f)
	defer bw.Flush()
	enc := json.NewEncoder(bw)

	if spec.Replay != "" {
		rr := ReplayFile(t, spec.Replay, spec.KeepLog)
		_ = enc.Encode(rr)
		return
	}
	var ps []*Profile
	for _, n := range spec.Profiles {
		p := ProfileByName(n)
		if p == nil {
			t.Fatalf("unknown profile %q", n)
		}
		ps = append(ps, p)
	}
	stride := spec.Stride
	if stride <= 0 {
		stride = 1
	}
	samples := 0
	for k := 0; k < spec.Count; k++ {
		if spec.Deadline > 0 && time.Now().Unix() >= spec.Deadline {
			break
		}
		i := spec.Start + k*stride
		p := ps[i%len(ps)]
		seed := mix(spec.SeedBase, i)
		CurrentIndex = i
		rr := RunOne(t, p, RunOpts{Seed: seed, KeepLog: spec.KeepLog})
		if rr.Violation != nil && spec.Minimise {
			rr = Minimise(t, p, rr, spec.MinBudgetSec)
			if spec.ReplayDir != "" {
				rr.ReplayPath = WriteReplay(spec.ReplayDir, rr)
			}
		}
		keepTrace := rr.Violation != nil || (samples < spec.Samples && rr.Nontrivial)
		if keepTrace && rr.Violation == nil {
			samples++
		}
		if !keepTrace {
			rr.Trace, rr.Outs = nil, nil
			rr.Config = nil
		}
		rr.Index = i
		if err := enc.Encode(rr); err != nil {
			t.Fatal(err)
		}
		bw.Flush()
	}
}
