package sim

import (
	"context"
	"fmt"
	"math/rand/v2"

	"github.com/yorkie-team/yorkie/api/types"
	"github.com/yorkie-team/yorkie/pkg/document/time"
	"github.com/yorkie-team/yorkie/server/backend/database"
)

// clockMonitor checks, on the wire, that logical clocks are causal and that
// the minimum version vector handed out for GC never overstates what an
// attached, GC-participating client actually holds.
type clockMonitor struct {
	prop string
	rc   *RunCtx
	viol *Violation
	// per replica (client id + doc instance)
	reps map[string]*replicaClock
	// (lamport, actor) -> clientSeq seen, per doc
	tickets map[string]uint32
}

type replicaClock struct {
	seenVV      time.VersionVector
	seenLamport int64
	lastCSeq    uint32 // highest clientSeq already checked
	lastLamport int64
}

func (m *clockMonitor) fail(oracle, class, detail string) {
	if m.viol == nil {
		m.viol = &Violation{Property: m.prop, Oracle: oracle, Class: class, Detail: detail, Step: m.rc.I}
	}
}

func (m *clockMonitor) tap(ev *WireEvent) {
	if ev.Req == nil || ev.Stale {
		return
	}
	rc := m.rc
	sc := rc.W.Client(ev.Client)
	if sc.Cli.ID().String() != ev.ClientID {
		return
	}
	sd := sc.Docs[0]
	if sd == nil {
		return
	}
	key := fmt.Sprintf("%s/%d", ev.ClientID, sd.Gen)
	r := m.reps[key]
	if r == nil {
		r = &replicaClock{seenVV: time.NewVersionVector()}
		m.reps[key] = r
	}
	wireNoGC := sd.Opts.WireNoGC
	actor := sc.Cli.ID()
	// ---- changes pushed by this request
	for _, c := range ev.Req.Changes {
		if c.ClientSeq() <= r.lastCSeq {
			continue // resent, checked before
		}
		id := c.ID()
		lam := id.Lamport()
		if !id.HasClocks() {
			// presence-only changes carry no logical clock by design
			// (change.ID.Next(excludeClocks)); they order nothing
			if c.HasOperations() {
				m.fail("content_change_has_clock", "operation_change_without_clock", fmt.Sprintf("client %d change cseq=%d has operations but no clock", ev.Client, c.ClientSeq()))
			}
			r.lastCSeq = c.ClientSeq()
			continue
		}
		rc.W.probe("clock_change_checked")
		if id.ActorID().Compare(actor) != 0 {
			m.fail("change_names_its_author", "change_with_foreign_actor", fmt.Sprintf("client %d pushed a change of actor %s", ev.Client, id.ActorID()))
		}
		if vv := id.VersionVector(); vv != nil {
			if got, _ := vv.Get(actor); got != lam {
				m.fail("vector_names_author_at_own_timestamp", "vv_self_entry_differs_from_lamport",
					fmt.Sprintf("client %d change cseq=%d lamport=%d but vv[self]=%d (%s)", ev.Client, c.ClientSeq(), lam, got, rankVV(rc, vv.Marshal())))
			}
			if !wireNoGC {
				for a, l := range r.seenVV {
					if got, _ := vv.Get(a); got < l {
						m.fail("vector_covers_everything_seen", "vv_below_seen_change",
							fmt.Sprintf("client %d change cseq=%d vv=%s does not cover what the replica had applied %s", ev.Client, c.ClientSeq(), rankVV(rc, vv.Marshal()), rankVV(rc, r.seenVV.Marshal())))
						break
					}
				}
			}
		}
		if lam <= r.seenLamport {
			m.fail("lamport_newer_than_everything_seen", "lamport_not_after_seen",
				fmt.Sprintf("client %d change cseq=%d lamport=%d but the replica had applied a change with lamport %d", ev.Client, c.ClientSeq(), lam, r.seenLamport))
		}
		if lam <= r.lastLamport {
			m.fail("author_timestamps_grow", "lamport_not_increasing",
				fmt.Sprintf("client %d change cseq=%d lamport=%d after lamport %d", ev.Client, c.ClientSeq(), lam, r.lastLamport))
		}
		tk := fmt.Sprintf("%d/%s", lam, id.ActorID())
		if prev, ok := m.tickets[tk]; ok {
			m.fail("timestamps_unique", "duplicate_lamport_actor", fmt.Sprintf("(lamport %d, client %d) used by cseq %d and %d", lam, ev.Client, prev, c.ClientSeq()))
		}
		m.tickets[tk] = c.ClientSeq()
		r.lastLamport = lam
		r.lastCSeq = c.ClientSeq()
	}
	if !ev.OK || ev.Resp == nil {
		return
	}
	// ---- the minimum vector of the response
	if ev.Resp.VersionVector != nil && len(ev.Resp.Snapshot) == 0 && !wireNoGC && ev.Proc != "DetachDocument" {
		m.checkMinVector(ev)
	}
	// ---- what the replica will have applied once this response is in
	if ev.Lost {
		return
	}
	for _, c := range ev.Resp.Changes {
		id := c.ID()
		if !id.HasClocks() {
			continue
		}
		if id.Lamport() > r.seenLamport {
			r.seenLamport = id.Lamport()
		}
		for a, l := range id.VersionVector() {
			if cur, _ := r.seenVV.Get(a); l > cur {
				r.seenVV.Set(a, l)
			}
		}
	}
	if len(ev.Resp.Snapshot) > 0 && ev.Resp.VersionVector != nil {
		for a, l := range ev.Resp.VersionVector {
			if wireNoGC {
				if l > r.seenLamport {
					r.seenLamport = l
				}
				continue
			}
			if cur, _ := r.seenVV.Get(a); l > cur {
				r.seenVV.Set(a, l)
			}
			if l > r.seenLamport {
				r.seenLamport = l
			}
		}
	}
}

// checkMinVector: for every client the server still counts as attached and
// GC-participating, and every actor, minVV[a] <= what that client's real
// document holds (absent = 0).
func (m *clockMonitor) checkMinVector(ev *WireEvent) {
	rc := m.rc
	ctx := context.Background()
	min := ev.Resp.VersionVector
	all := append([]*SimClient(nil), rc.W.Clients...)
	all = append(all, rc.W.Graveyard...)
	for _, sc := range all {
		if sc == nil || sc.Cli.ID() == time.InitialActorID {
			continue
		}
		sd := sc.Docs[0]
		if sd == nil || sd.Opts.WireNoGC {
			continue
		}
		info, err := rc.W.mem.FindClientInfoByRefKey(ctx, types.ClientRefKey{ProjectID: rc.W.Projects[sc.Proj].ID, ClientID: types.IDFromActorID(sc.Cli.ID())})
		if err != nil || info.Status != database.ClientActivated {
			continue
		}
		attached := false
		for id, di := range info.Documents {
			if id.String() == ev.DocID && di.Status == database.DocumentAttached {
				attached = true
			}
		}
		if !attached {
			continue
		}
		if sc.Cli.ID().String() == ev.ClientID {
			// the requester: its document is about to apply this very response
			continue
		}
		actual := sd.Doc.VersionVector()
		rc.W.probe("min_vector_checked")
		for a, l := range min {
			if l == 0 {
				continue
			}
			if have, _ := actual.Get(a); l > have {
				m.fail("min_vector_never_overstates", "min_vector_exceeds_attached_client",
					fmt.Sprintf("response to client %d carries min=%s but attached client %d holds %s", ev.Client, rankVV(rc, min.Marshal()), sc.Idx, rankVV(rc, actual.Marshal())))
				return
			}
		}
	}
}

func (m *clockMonitor) AfterStep(rc *RunCtx, i int, st *Step, res *StepResult) *Violation {
	return m.viol
}
func (m *clockMonitor) Final(rc *RunCtx) *Violation { return m.viol }

func c06Config(r *rand.Rand) *RunConfig {
	cfg := c01Config(r.IntN(2) == 0)(r)
	cfg.SnapshotThreshold = pickN(r, []int64{2, 5, 10, 500, 1000})
	cfg.SnapshotInterval = pickN(r, []int64{2, 5, 10, 500})
	cfg.W["reattach"] = 1 + r.IntN(3)
	cfg.W["rejoin"] = 1
	cfg.W["vanish"] = 1
	if r.IntN(2) == 0 {
		cfg.W["hk_deactivate"] = 1
		cfg.ClientDeactivateThreshold = "24h"
	}
	return cfg
}

// c06GCFreeConfig: documents that only use commutative types, attached by a
// mix of ordinary clients and clients that opted out of GC on the wire.
func c06GCFreeConfig(r *rand.Rand) *RunConfig {
	cfg := c06Config(r)
	cfg.Extra["gcfree_doc"] = 1
	cfg.Extra["wire_nogc_pct"] = 50
	cfg.Extra["late_attach_pct"] = 0
	return cfg
}

func c06Monitors(rc *RunCtx) []Monitor {
	cm := &clockMonitor{prop: "C06", rc: rc, reps: map[string]*replicaClock{}, tickets: map[string]uint32{}}
	rc.W.wireTaps = append(rc.W.wireTaps, cm.tap)
	return append(append([]Monitor{housekeepingTap{}}, sessionMonitors("C06", false)(rc)...), cm)
}

func init() {
	Register(&Profile{Name: "c06_gcfree", Property: "C06", Config: c06GCFreeConfig, Next: SessionNext,
		Monitors: c06Monitors, Nontrivial: func(rc *RunCtx) bool {
			p := rc.W.Stats.Probes
			return p["clock_change_checked"] >= 3
		}})
	Register(&Profile{Name: "c06_clocks", Property: "C06", Config: c06Config, Next: SessionNext,
		Monitors: c06Monitors, Nontrivial: func(rc *RunCtx) bool {
			p := rc.W.Stats.Probes
			return p["clock_change_checked"] >= 3 && p["min_vector_checked"] > 0
		}})
}
