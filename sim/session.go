package sim

import (
	"math/rand/v2"

	"github.com/yorkie-team/yorkie/pkg/attachable"
)

// session is the generic multi-client editing session most profiles use:
// clients activate and attach, then edit, sync, go offline, detach and
// re-attach, while the scheduler interleaves background work, time and
// faults.
type session struct {
	queue           []Step
	started         bool
	offlineUntil    map[int]int
	syncCalls       int      // storage calls of the last complete sync RPC (for fault placement)
	syncCallNames   []string // their names, learnt from the last pushing sync of this run
	c05             *c05Faulter
	pendingAttach   map[int]bool
	lateAttach      map[int]int // client -> step at which it first attaches
	faultsLeft      int
	rejoining       map[int]bool
	firstAttachDone bool
	jumped          bool
}

func (rc *RunCtx) sess() *session {
	s, _ := rc.State["session"].(*session)
	if s == nil {
		s = &session{offlineUntil: map[int]int{}, pendingAttach: map[int]bool{}, lateAttach: map[int]int{}, syncCalls: 8, rejoining: map[int]bool{}}
		rc.State["session"] = s
	}
	return s
}

func pickN(r *rand.Rand, choices []int64) int64 { return choices[r.IntN(len(choices))] }

// attachOpts draws the options of one attach from the run configuration.
func (rc *RunCtx) attachOpts(c int) *AttachOp {
	op := &AttachOp{}
	x := rc.Cfg.Extra
	if x["attach_presence"] > 0 && rc.R.IntN(100) < x["attach_presence"] {
		op.Presence = map[string]string{"name": rc.G.uniq(c)}
	}
	if x["no_presence"] > 0 {
		op.NoPresence = true
	}
	if x["no_presence_first"] > 0 && !rc.sess().firstAttachDone {
		op.NoPresence = true
	} else if p := x["no_presence_later_pct"]; p > 0 && rc.sess().firstAttachDone && rc.R.IntN(100) < p {
		op.NoPresence = true
	}
	rc.sess().firstAttachDone = true
	if op.NoPresence {
		op.Presence = nil
	}
	if x["local_nogc_pct"] > 0 && rc.R.IntN(100) < x["local_nogc_pct"] {
		op.LocalNoGC = true
	}
	if x["wire_nogc_pct"] > 0 && rc.R.IntN(100) < x["wire_nogc_pct"] {
		op.WireNoGC = true
	}
	if x["initial_root_pct"] > 0 && rc.R.IntN(100) < x["initial_root_pct"] {
		op.InitialRoot = `{"init":"` + rc.G.uniq(c) + `"}`
	}
	return op
}

func (s *session) enqueueJoin(rc *RunCtx, c int) {
	s.queue = append(s.queue, Step{Op: "activate", C: c}, Step{Op: "attach", C: c, D: 0, Opts: rc.attachOpts(c)})
}

// SessionNext is the default step generator.
func SessionNext(rc *RunCtx) *Step {
	s := rc.sess()
	cfg := rc.Cfg
	r := rc.R
	if !s.started {
		s.started = true
		s.faultsLeft = cfg.Extra["max_faults"]
		order := r.Perm(cfg.Clients)
		for k, c := range order {
			if k >= 2 && cfg.Extra["late_attach_pct"] > 0 && r.IntN(100) < cfg.Extra["late_attach_pct"] {
				s.lateAttach[c] = 5 + r.IntN(max(1, cfg.Steps-5))
				s.queue = append(s.queue, Step{Op: "activate", C: c})
				continue
			}
			s.enqueueJoin(rc, c)
			if k == 0 && cfg.Extra["gcfree_doc"] > 0 {
				// a document that only ever uses commutative types: the one
				// and only creation of its counters
				s.queue = append(s.queue, Step{Op: "update", C: c, Edits: []Edit{
					{K: "o.new", Key: "c0", T: "cnt", I: 1}, {K: "o.new", Key: "l0", T: "lcnt", I: 1}}}, Step{Op: "sync", C: c})
			}
		}
	}
	if len(s.queue) > 0 {
		st := s.queue[0]
		s.queue = s.queue[1:]
		return &st
	}
	if rc.I >= cfg.Steps {
		return nil
	}
	for c, at := range s.lateAttach {
		_ = c
		_ = at
	}
	// late attachers (sorted iteration)
	for c := 0; c < cfg.Clients; c++ {
		if at, ok := s.lateAttach[c]; ok && rc.I >= at {
			delete(s.lateAttach, c)
			st := Step{Op: "attach", C: c, D: 0, Opts: rc.attachOpts(c)}
			rc.W.probe("late_attach")
			return &st
		}
	}

	for tries := 0; tries < 20; tries++ {
		kind := weighted(r, cfg.W)
		c := r.IntN(cfg.Clients)
		sc := rc.W.Client(c)
		sd := sc.Docs[0]
		attached := sd != nil && sd.Doc.Status() == attachable.StatusAttached && sc.Cli.IsActive()
		if _, late := s.lateAttach[c]; late {
			continue
		}
		if _, ex := rc.Excluded[c]; ex {
			continue
		}
		if s.rejoining[c] {
			// queued newclient/activate/attach has run by now
			delete(s.rejoining, c)
		}
		switch kind {
		case "update":
			if !attached {
				continue
			}
			n := 1 + r.IntN(3)
			if cfg.Extra["single_edit_updates"] > 0 {
				n = 1
			}
			st := &Step{Op: "update", C: c}
			root := sd.Doc.Root()
			for k := 0; k < n; k++ {
				if cp := cfg.Extra["cons_pct"]; cp > 0 && r.IntN(100) < cp {
					st.Edits = append(st.Edits, consEdit(rc.G, c))
					continue
				}
				if cfg.Kinds["presence"] > 0 && r.IntN(100) < cfg.Kinds["presence"] {
					st.Edits = append(st.Edits, *rc.G.GenPresence(c))
					continue
				}
				var e *Edit
				if sd.Opts.WireNoGC || cfg.Extra["gcfree_doc"] > 0 {
					e = rc.G.GenEditNoTombstones(c, root)
				} else {
					e = rc.G.GenEdit(c, root)
				}
				if e != nil {
					st.Edits = append(st.Edits, *e)
				}
			}
			if len(st.Edits) == 0 {
				continue
			}
			if fp := cfg.Extra["fail_pct"]; fp > 0 && r.IntN(100) < fp {
				st.Fail = &Fail{Mode: []string{"error", "panic"}[r.IntN(2)], After: r.IntN(len(st.Edits) + 1)}
			}
			return st
		case "sync", "push_only":
			if !attached {
				continue
			}
			if rc.I < s.offlineUntil[c] {
				continue
			}
			st := &Step{Op: "sync", C: c}
			if kind == "push_only" {
				st.Flag = "push_only"
			}
			if cfg.Extra["c05"] > 0 {
				if s.c05 == nil {
					s.c05 = &c05Faulter{}
				}
				s.c05.decorate(rc, s, st)
			} else {
				s.maybeFault(rc, st)
			}
			return st
		case "offline":
			if !attached {
				continue
			}
			s.offlineUntil[c] = rc.I + 5 + r.IntN(max(1, cfg.Steps/3))
			rc.W.probe("offline_stretch")
			continue
		case "reattach":
			if !attached {
				continue
			}
			// detach, then attach a fresh Document instance
			s.queue = append(s.queue, Step{Op: "attach", C: c, Opts: rc.attachOpts(c)})
			return &Step{Op: "detach", C: c}
		case "rejoin":
			if !attached {
				continue
			}
			// deactivate (server detaches everything), come back as a new client
			s.queue = append(s.queue, Step{Op: "newclient", C: c})
			s.enqueueJoin(rc, c)
			st := &Step{Op: "deactivate", C: c}
			if r.IntN(3) == 0 {
				st.Flag = "async"
			}
			return st
		case "vanish":
			if !attached {
				continue
			}
			// the client process dies without telling anybody; a new client
			// takes the slot
			rc.W.probe("client_vanished")
			s.queue = append(s.queue, Step{Op: "activate", C: c}, Step{Op: "attach", C: c, Opts: rc.attachOpts(c)})
			return &Step{Op: "newclient", C: c}
		case "hk_deactivate":
			// a long silence, then the housekeeping task: live-but-silent
			// clients are deactivated by the server
			s.queue = append(s.queue, Step{Op: "housekeeping", Flag: "deactivate"})
			return &Step{Op: "sleep", Dur: "25h"}
		case "hk_compact":
			return &Step{Op: "housekeeping", Flag: "compact"}
		case "force_compact":
			return &Step{Op: "admin", Flag: "force_compact"}
		case "compact":
			return &Step{Op: "admin", Flag: "compact"}
		case "bg":
			if len(rc.W.Parked()) == 0 {
				continue
			}
			return &Step{Op: "bg", I: r.IntN(len(rc.W.Parked()))}
		case "bgdrain":
			if len(rc.W.Parked()) == 0 {
				continue
			}
			return &Step{Op: "bgdrain"}
		case "held":
			if len(rc.W.held) == 0 {
				continue
			}
			return &Step{Op: "held", I: r.IntN(len(rc.W.held))}
		case "sleep":
			durs := []string{"10ms", "1s", "1m", "1h", "25h"}
			return &Step{Op: "sleep", Dur: durs[r.IntN(len(durs))]}
		case "restart":
			return &Step{Op: "restart"}
		case "revision":
			return &Step{Op: "revision", Flag: "create"}
		case "cache_purge":
			return &Step{Op: "cache", Flag: "purge"}
		case "rebuild":
			st := &Step{Op: "rebuild"}
			if r.IntN(2) == 0 {
				st.Flag = "purge"
			}
			return st
		case "undo", "redo":
			if sd == nil {
				continue
			}
			if kind == "undo" && !sd.Doc.CanUndo() || kind == "redo" && !sd.Doc.CanRedo() {
				continue
			}
			return &Step{Op: kind, C: c}
		}
	}
	return &Step{Op: "sleep", Dur: "10ms"}
}

// maybeFault decorates an RPC step with a fault according to the run's fault
// configuration.
func (s *session) maybeFault(rc *RunCtx, st *Step) {
	cfg := rc.Cfg
	if len(cfg.FaultKinds) == 0 || cfg.FaultRate == 0 || rc.R.IntN(1000) >= cfg.FaultRate {
		return
	}
	if cfg.Extra["max_faults"] > 0 {
		if s.faultsLeft <= 0 {
			return
		}
		s.faultsLeft--
	}
	k := cfg.FaultKinds[rc.R.IntN(len(cfg.FaultKinds))]
	switch k {
	case "drop_req", "drop_resp", "hold", "hold_only":
		st.Net = k
	case "err_before", "err_after", "crash_before", "crash_after":
		st.DB = &DBFault{Call: rc.R.IntN(max(1, s.syncCalls)), Mode: k}
	}
}

// noteRPC lets the session learn how many storage calls a sync makes.
func (s *session) noteRPC(res *StepResult) {
	if res.RPC != nil && res.Err == nil && len(res.RPC.Calls) > 0 {
		s.syncCalls = len(res.RPC.Calls)
		if len(res.RPC.Calls) >= len(s.syncCallNames) {
			s.syncCallNames = append([]string(nil), res.RPC.Calls...)
		}
	}
}
