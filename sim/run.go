package sim

import (
	"context"
	"crypto/sha256"
	"encoding/hex"
	"encoding/json"
	"fmt"
	"math/rand/v2"
	"os"
	"runtime/debug"
	"sort"
	"strconv"
	"strings"
	"testing"
	"testing/synctest"
	gotime "time"

	"github.com/yorkie-team/yorkie/pkg/attachable"
	"github.com/yorkie-team/yorkie/pkg/document/time"
	"github.com/yorkie-team/yorkie/server/backend/database"
	"github.com/yorkie-team/yorkie/server/packs"
)

// Violation is a failed oracle.
type Violation struct {
	Property string `json:"property"`
	Oracle   string `json:"oracle"`
	Class    string `json:"class"` // stable class used by minimisation ("same violation")
	Detail   string `json:"detail"`
	Step     int    `json:"step"` // index into the trace, len(trace) for final oracles
}

func (v *Violation) String() string {
	return fmt.Sprintf("property=%s oracle=%s class=%s step=%d: %s", v.Property, v.Oracle, v.Class, v.Step, v.Detail)
}

// Monitor is an oracle evaluated while a run proceeds and at its end.
type Monitor interface {
	AfterStep(rc *RunCtx, i int, st *Step, res *StepResult) *Violation
	Final(rc *RunCtx) *Violation
}

// BeforeStepper is implemented by monitors that need the state before a step.
type BeforeStepper interface {
	BeforeStep(rc *RunCtx, i int, st *Step)
}

// Profile turns a property into a workload, a fault space and oracles.
type Profile struct {
	Name     string
	Property string
	Config   func(r *rand.Rand) *RunConfig
	// Next returns the next step, or nil when the run is over.
	Next     func(rc *RunCtx) *Step
	Monitors func(rc *RunCtx) []Monitor
	// Quiesce decides whether the generic quiescent rounds run before Final.
	NoQuiesce bool
	// Nontrivial decides whether a finished run counts as non-trivial.
	Nontrivial func(rc *RunCtx) bool
}

// RunCtx is the state of one run.
type RunCtx struct {
	P     *Profile
	Cfg   *RunConfig
	W     *World
	G     *Gen
	R     *rand.Rand
	I     int // index of the step being generated/executed
	Trace []Step
	Outs  []string
	Mons  []Monitor
	State map[string]any
	// Model of what the harness knows about each client (profile-specific
	// monitors may use it).
	Setup []Step // queued setup steps
	log   *sha256Log
	// Excluded holds clients that legitimately cannot sync any more.
	Excluded map[int]string
	// Quiesced is set once the final quiescent rounds have run.
	Quiesced bool
	QRounds  int
}

type sha256Log struct {
	h     interface{ Write([]byte) (int, error) }
	sum   func() string
	lines []string
	keep  bool
}

func newLog(keep bool) *sha256Log {
	h := sha256.New()
	return &sha256Log{h: h, sum: func() string { return hex.EncodeToString(h.Sum(nil)) }, keep: keep}
}

func (l *sha256Log) add(s string) {
	_, _ = l.h.Write([]byte(s))
	_, _ = l.h.Write([]byte{'\n'})
	if l.keep {
		l.lines = append(l.lines, s)
	}
}

// RunResult is what a run reports to the worker.
type RunResult struct {
	Seed       uint64         `json:"seed"`
	Profile    string         `json:"profile"`
	Property   string         `json:"property"`
	Config     *RunConfig     `json:"config"`
	Trace      []Step         `json:"trace,omitempty"`
	Outs       []string       `json:"outs,omitempty"`
	Violation  *Violation     `json:"violation,omitempty"`
	Faults     map[string]int `json:"faults,omitempty"`
	Probes     map[string]int `json:"probes,omitempty"`
	TraceHash  string         `json:"trace_hash"`
	LogHash    string         `json:"log_hash"`
	Nontrivial bool           `json:"nontrivial"`
	Steps      int            `json:"steps"`
	SimMillis  int64          `json:"sim_ms"`
	Infra      string         `json:"infra,omitempty"` // harness trouble (not a violation)
	LogLines   []string       `json:"log_lines,omitempty"`
	Index      int            `json:"index"`
	ReplayPath string         `json:"replay_path,omitempty"`
	Expected   *Violation     `json:"expected,omitempty"`
	OrigSteps  int            `json:"orig_steps,omitempty"`
	// MinIncomplete: the wall-clock backstop ended minimisation.
	MinIncomplete bool `json:"min_incomplete,omitempty"`
	MinCandidates int  `json:"min_candidates,omitempty"`
	Unminimised   bool `json:"unminimised,omitempty"`
}

var debugSpinAt = func() int {
	n, err := strconv.Atoi(os.Getenv("VERIF_DEBUG_SPIN_AT"))
	if err != nil {
		return -1
	}
	return n
}()

// DebugAfterStep is a development hook (nil in checks).
var DebugAfterStep func(rc *RunCtx, i int)

// StepSink, when set, sees the configuration and every step before it is executed.
var StepSink func(kind string, v any)

var profiles = map[string]*Profile{}

// Register adds a profile.
func Register(p *Profile) { profiles[p.Name] = p }

// ProfilesFor returns the profiles serving a property in a stable order.
func ProfilesFor(property string) []*Profile {
	var out []*Profile
	for _, p := range profiles {
		if p.Property == property {
			out = append(out, p)
		}
	}
	sort.Slice(out, func(i, j int) bool { return out[i].Name < out[j].Name })
	return out
}

// ProfileByName looks a profile up.
func ProfileByName(n string) *Profile { return profiles[n] }

// RunOpts selects between generation and replay.
type RunOpts struct {
	Seed      uint64
	Config    *RunConfig // replay: the recorded configuration
	Trace     []Step     // replay: the recorded steps
	Replay    bool
	KeepLog   bool
	KeepTrace bool
}

// RunOne executes one simulated run inside its own bubble.
// Heartbeat, when set, is called at the start of every bubble (generation, replay,
// minimisation candidate): the driver's stall watchdog looks at it, so that a long
// minimisation is not mistaken for a spinning run.
var Heartbeat func()

func RunOne(t *testing.T, p *Profile, o RunOpts) (res *RunResult) {
	if Heartbeat != nil {
		Heartbeat()
	}
	res = &RunResult{Seed: o.Seed, Profile: p.Name, Property: p.Property}
	func() {
		defer func() {
			if r := recover(); r != nil {
				s := fmt.Sprint(r)
				if strings.Contains(s, "blocked goroutines remain") || strings.Contains(s, "main bubble goroutine has exited") {
					return // library goroutines without a stop (LRU sweepers)
				}
				if strings.Contains(s, "deadlock: all goroutines in bubble are blocked") {
					res.Infra = "bubble deadlock: " + s
					return
				}
				panic(r)
			}
		}()
		synctest.Test(t, func(t *testing.T) {
			runInBubble(p, o, res)
		})
	}()
	return res
}

func runInBubble(p *Profile, o RunOpts, res *RunResult) {
	start := gotime.Now()
	r := rand.New(rand.NewPCG(o.Seed, 0x9e3779b97f4a7c15))
	var cfg *RunConfig
	if o.Replay {
		cfg = o.Config
	} else {
		cfg = p.Config(r)
		cfg.Profile = p.Name
		cfg.Property = p.Property
	}
	if os.Getenv("VERIF_TRACE") != "" {
		cfg.Trace = true
	}
	res.Config = cfg
	if StepSink != nil {
		StepSink("begin", map[string]any{"seed": o.Seed, "profile": p.Name, "property": p.Property, "index": CurrentIndex})
		StepSink("config", cfg)
	}
	rc := &RunCtx{P: p, Cfg: cfg, R: r, State: map[string]any{}, Excluded: map[int]string{}, log: newLog(o.KeepLog)}
	var viol *Violation
	defer func() {
		if pv := recover(); pv != nil {
			// a panic escaping the system under test is a violation of the
			// profile's property ("no panic" oracle)
			if rc.W != nil && rc.W.gen != nil {
				rc.W.gen.dead = true
			}
			msg := normErr(fmt.Sprint(pv))
			stack := string(debug.Stack())
			viol = &Violation{Property: p.Property, Oracle: "no_panic", Class: "panic:" + panicClass(msg, stack), Detail: msg + "\n" + trimStack(stack), Step: rc.I}
		}
		if n := len(rc.Trace); n > 0 && rc.Trace[n-1].Op == "par" && rc.W != nil && rc.Trace[n-1].Sched == nil {
			rc.Trace[n-1].Sched = rc.W.LastSchedTrace
		}
		res.Violation = viol
		res.Trace = rc.Trace
		res.Outs = rc.Outs
		res.Steps = len(rc.Trace)
		if rc.W != nil {
			res.Faults = rc.W.Stats.Faults
			res.Probes = rc.W.Stats.Probes
			func() {
				defer func() { _ = recover() }()
				rc.W.Close()
			}()
		}
		tb, _ := json.Marshal(rc.Trace)
		th := sha256.Sum256(tb)
		res.TraceHash = hex.EncodeToString(th[:8])
		res.LogHash = rc.log.sum()[:16]
		res.LogLines = rc.log.lines
		res.SimMillis = gotime.Since(start).Milliseconds()
		if viol == nil && p.Nontrivial != nil {
			func() {
				defer func() { _ = recover() }()
				res.Nontrivial = p.Nontrivial(rc)
			}()
		}
	}()

	w, err := NewWorld(cfg)
	if err != nil {
		res.Infra = "world: " + err.Error()
		return
	}
	rc.W = w
	rc.G = &Gen{R: r, W: w, Cfg: cfg}
	rc.Mons = p.Monitors(rc)

	for i := 0; ; i++ {
		rc.I = i
		var st *Step
		if o.Replay {
			if i >= len(o.Trace) {
				break
			}
			s := o.Trace[i]
			st = &s
		} else {
			st = p.Next(rc)
			if st == nil {
				break
			}
			if debugSpinAt >= 0 && CurrentIndex == debugSpinAt && i == 3 {
				st = &Step{Op: "spin"}
			}
		}
		rc.Trace = append(rc.Trace, *st)
		for _, m := range rc.Mons {
			if b, ok := m.(BeforeStepper); ok {
				b.BeforeStep(rc, i, st)
			}
		}
		w.stepIndex = i
		if StepSink != nil {
			StepSink("step", st)
		}
		sr := w.Exec(st)
		if st.Op == "par" {
			rc.Trace[i].Sched = w.LastSchedTrace // the schedule as decided is part of the trace
		}
		rc.Outs = append(rc.Outs, sr.Out)
		if drainDebug {
			fmt.Fprintf(os.Stderr, "MAIN %d %s -> %s spawned=%d\n", i, st.String(), sr.Out, w.bgSpawned())
		}
		rc.log.add(fmt.Sprintf("%d %s -> %s", i, st.String(), describe(&sr)))
		if o.KeepLog {
			rc.dumpState()
			if rc.Cfg.Trace {
				rc.dumpServer()
			}
		}
		if DebugAfterStep != nil {
			DebugAfterStep(rc, i)
		}
		if sr.Viol != nil {
			viol = sr.Viol
			viol.Step = i
			return
		}
		if sr.Out == "hang" {
			viol = &Violation{Property: p.Property, Oracle: "no_hang", Class: "hang:" + st.Op, Detail: "step did not finish: " + st.String(), Step: i}
			return
		}
		for _, m := range rc.Mons {
			if v := m.AfterStep(rc, i, st, &sr); v != nil {
				viol = v
				return
			}
			// the sub-steps of a parallel section are judged like ordinary steps
			for k := range sr.Sub {
				if v := m.AfterStep(rc, i, &st.Sub[k], &sr.Sub[k]); v != nil {
					viol = v
					return
				}
			}
		}
	}
	rc.I = len(rc.Trace)
	if !p.NoQuiesce {
		if v := rc.Quiesce(); v != nil {
			viol = v
			return
		}
	}
	for _, m := range rc.Mons {
		if v := m.Final(rc); v != nil {
			viol = v
			return
		}
	}
}

func describe(sr *StepResult) string {
	s := sr.Out
	if sr.Err != nil {
		s += " (" + normErr(sr.Err.Error()) + ")"
	}
	if sr.RPC != nil {
		s += fmt.Sprintf(" rpc=%s calls=%d", sr.RPC.Proc, len(sr.RPC.Calls))
		if os.Getenv("VERIF_CALLS") != "" {
			s += fmt.Sprintf(" %v", sr.RPC.Calls)
		}
	}
	return s
}

func panicClass(msg, stack string) string {
	// first frame inside yorkie
	for _, line := range strings.Split(stack, "\n") {
		line = strings.TrimSpace(line)
		if strings.HasPrefix(line, "github.com/yorkie-team/yorkie/") {
			if i := strings.Index(line, "("); i > 0 {
				line = line[:i]
			}
			return strings.TrimPrefix(line, "github.com/yorkie-team/yorkie/")
		}
	}
	if len(msg) > 80 {
		msg = msg[:80]
	}
	return msg
}

func trimStack(s string) string {
	lines := strings.Split(s, "\n")
	var out []string
	for _, l := range lines {
		if strings.Contains(l, "yorkie") || strings.Contains(l, "verifsim") {
			out = append(out, l)
		}
		if len(out) > 24 {
			break
		}
	}
	return strings.Join(out, "\n")
}

// ---------------------------------------------------------------------------
// quiescence

// AttachedReplicas lists (client, doc) pairs whose local status is attached,
// sorted.
func (rc *RunCtx) AttachedReplicas(d int) []*SimClient {
	var out []*SimClient
	for _, sc := range rc.W.Clients {
		if sc == nil || sc.Closed || !sc.Cli.IsActive() {
			continue
		}
		if _, ex := rc.Excluded[sc.Idx]; ex {
			continue
		}
		sd := sc.Docs[d]
		if sd != nil && sd.Doc.Status() == attachable.StatusAttached {
			out = append(out, sc)
		}
	}
	return out
}

// Quiesce stops faults, runs all background work and lets every attached
// client sync until a round moves nothing. Bounded liveness: three rounds
// must be enough.
func (rc *RunCtx) Quiesce() *Violation {
	w := rc.W
	w.DrainBackground()
	const maxRounds = 3
	for round := 1; round <= maxRounds+1; round++ {
		moved := false
		for d := 0; d < rc.Cfg.Docs; d++ {
			for _, sc := range rc.AttachedReplicas(d) {
				sd := sc.Docs[d]
				before := sd.Doc.Checkpoint()
				hadLocal := sd.Doc.HasLocalChanges()
				st := &Step{Op: "sync", C: sc.Idx, D: d}
				sr := w.Exec(st)
				rc.log.add(fmt.Sprintf("q%d %s -> %s", round, st.String(), describe(&sr)))
				if rc.log.keep && rc.Cfg.Trace {
					rc.dumpState()
					rc.dumpServer()
				}
				if sr.Out != "ok" {
					return &Violation{Property: rc.P.Property, Oracle: "quiescent_sync_succeeds",
						Class:  "qsync_failed:" + describe(&StepResult{Out: sr.Out, Err: sr.Err}),
						Detail: fmt.Sprintf("client %d doc %d: sync in quiescent round %d failed: %v", sc.Idx, d, round, sr.Err), Step: rc.I}
				}
				for _, m := range rc.Mons {
					if v := m.AfterStep(rc, rc.I, st, &sr); v != nil {
						return v
					}
				}
				after := sd.Doc.Checkpoint()
				if hadLocal || after.ServerSeq != before.ServerSeq {
					moved = true
				}
			}
		}
		w.DrainBackground()
		rc.QRounds = round
		if !moved {
			rc.Quiesced = true
			return nil
		}
		if round > maxRounds {
			break
		}
	}
	return &Violation{Property: rc.P.Property, Oracle: "bounded_liveness", Class: "not_quiescent_after_3_rounds",
		Detail: "changes still move after three fault-free sync rounds", Step: rc.I}
}

// ServerDoc rebuilds the server's view of a document at its head.
func (rc *RunCtx) ServerDoc(d int) (string, *database.DocInfo, error) {
	w := rc.W
	ctx := context.Background()
	info, err := w.mem.FindDocInfoByKey(ctx, w.Projects[0].ID, docKey(d))
	if err != nil {
		return "", nil, err
	}
	// the oracle must not help the system: a rebuild refreshes the snapshot cache, and a
	// stale entry it would have replaced is exactly what some defects leave behind
	// (seeded change C10-1). The cache entry is put back as it was.
	key := info.RefKey()
	old, had := w.gen.be.Cache.Snapshot.Peek(key)
	defer func() {
		if had {
			w.gen.be.Cache.Snapshot.Add(key, old)
		} else {
			w.gen.be.Cache.Snapshot.Remove(key)
		}
	}()
	doc, err := packs.BuildInternalDocForServerSeq(ctx, w.gen.be, info, info.ServerSeq)
	if err != nil {
		return "", info, err
	}
	return doc.Marshal(), info, nil
}

// dumpState writes every replica's visible state into the event log
// (verbose replays and determinism self-tests).
func (rc *RunCtx) dumpState() {
	for _, sc := range rc.W.Clients {
		if sc == nil {
			continue
		}
		for _, d := range sortedDocs(sc) {
			sd := sc.Docs[d]
			// NOTE: GarbageLen() is not part of the compared log: the removedAt of an object
			// member that lost its key depends on the order in which a snapshot lists the
			// members (Go map order at the encoder, replayed by the decoder's LWW), so the
			// moment such a tombstone is purged differs from process to process. Content,
			// vectors and checkpoints do not depend on it.
			rc.log.add(fmt.Sprintf("    c%d d%d st=%d cp=%s local=%v vv=%s %s", sc.Idx, d, int(sd.Doc.Status()),
				sd.Doc.Checkpoint().String(), sd.Doc.HasLocalChanges(), rankVV(rc, sd.Doc.VersionVector().Marshal()), clip(sd.Doc.Marshal())))
			if rc.Cfg.Trace {
				rc.log.add(fmt.Sprintf("        garbage=%d", sd.Doc.GarbageLen()))
				rc.log.add("        " + rankVV(rc, structure(sd.Doc.RootObject())))
			}
		}
	}
}

// dumpServer writes the server's view (head, minimum vector over the stored
// client rows) into the event log.
func (rc *RunCtx) dumpServer() {
	ctx := context.Background()
	for d := 0; d < rc.Cfg.Docs; d++ {
		info, err := rc.W.mem.FindDocInfoByKey(ctx, rc.W.Projects[0].ID, docKey(d))
		if err != nil {
			continue
		}
		big := time.NewVersionVector()
		for _, sc := range rc.W.Clients {
			if sc != nil && sc.Cli.IsActive() {
				big.Set(sc.Cli.ID(), 1<<40)
			}
		}
		min, _ := rc.W.mem.GetMinVersionVector(ctx, info.RefKey(), big)
		rc.log.add(fmt.Sprintf("    server d%d head=%d epoch=%d minOverRows=%s", d, info.ServerSeq, info.Epoch, rankVV(rc, min.Marshal())))
	}
}

// rankVV replaces actor ids by the slot (and generation) of the client that
// owns them, so that logs do not depend on the process-random part of ids.
func rankVV(rc *RunCtx, s string) string {
	names := rc.W.ActorNames
	keys := make([]string, 0, len(names))
	for k := range names {
		keys = append(keys, k)
	}
	sort.Strings(keys)
	for _, k := range keys {
		s = strings.ReplaceAll(s, k, names[k])
	}
	return s
}
