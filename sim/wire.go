package sim

import (
	"bytes"
	"compress/gzip"
	"io"
	"net/http"

	"google.golang.org/protobuf/proto"

	"github.com/yorkie-team/yorkie/api/converter"
	api "github.com/yorkie-team/yorkie/api/yorkie/v1"
	"github.com/yorkie-team/yorkie/pkg/document/change"
)

// WireEvent is one document RPC as seen on the simulated wire, decoded.
type WireEvent struct {
	RPC      *RPCRecord
	Proc     string // AttachDocument | PushPullChanges | DetachDocument | RemoveDocument
	Client   int
	ClientID string
	DocID    string
	PushOnly bool
	WireNoGC bool
	Req      *change.Pack
	ReqPB    *api.ChangePack
	Resp     *change.Pack // nil when the request failed
	RespPB   *api.ChangePack
	OK       bool
	Stale    bool // a delayed duplicate nobody waits for
	Lost     bool // the response never reached the client
}

func maybeGunzip(h http.Header, b []byte) []byte {
	if h.Get("Content-Encoding") != "gzip" {
		return b
	}
	zr, err := gzip.NewReader(bytes.NewReader(b))
	if err != nil {
		return b
	}
	out, err := io.ReadAll(zr)
	if err != nil {
		return b
	}
	return out
}

// decodeWire decodes the packs of a document RPC; it returns nil for other
// procedures or undecodable bodies.
func decodeWire(rec *RPCRecord, reqHdr http.Header, req []byte, status int, respHdr http.Header, resp []byte) *WireEvent {
	ev := &WireEvent{RPC: rec, Client: rec.Client}
	req = maybeGunzip(reqHdr, req)
	var reqPB, respPB *api.ChangePack
	ok := status == 200
	if ok {
		resp = maybeGunzip(respHdr, resp)
	}
	switch rec.Proc {
	case "YorkieService/AttachDocument":
		var m api.AttachDocumentRequest
		if proto.Unmarshal(req, &m) != nil {
			return nil
		}
		ev.Proc, ev.ClientID, reqPB, ev.WireNoGC = "AttachDocument", m.ClientId, m.ChangePack, m.DisableGc
		if ok {
			var r api.AttachDocumentResponse
			if proto.Unmarshal(resp, &r) != nil {
				return nil
			}
			respPB, ev.DocID = r.ChangePack, r.DocumentId
		}
	case "YorkieService/PushPullChanges":
		var m api.PushPullChangesRequest
		if proto.Unmarshal(req, &m) != nil {
			return nil
		}
		ev.Proc, ev.ClientID, ev.DocID, reqPB, ev.PushOnly, ev.WireNoGC = "PushPullChanges", m.ClientId, m.DocumentId, m.ChangePack, m.PushOnly, m.DisableGc
		if ok {
			var r api.PushPullChangesResponse
			if proto.Unmarshal(resp, &r) != nil {
				return nil
			}
			respPB = r.ChangePack
		}
	case "YorkieService/DetachDocument":
		var m api.DetachDocumentRequest
		if proto.Unmarshal(req, &m) != nil {
			return nil
		}
		ev.Proc, ev.ClientID, ev.DocID, reqPB = "DetachDocument", m.ClientId, m.DocumentId, m.ChangePack
		if ok {
			var r api.DetachDocumentResponse
			if proto.Unmarshal(resp, &r) != nil {
				return nil
			}
			respPB = r.ChangePack
		}
	case "YorkieService/RemoveDocument":
		var m api.RemoveDocumentRequest
		if proto.Unmarshal(req, &m) != nil {
			return nil
		}
		ev.Proc, ev.ClientID, ev.DocID, reqPB = "RemoveDocument", m.ClientId, m.DocumentId, m.ChangePack
		if ok {
			var r api.RemoveDocumentResponse
			if proto.Unmarshal(resp, &r) != nil {
				return nil
			}
			respPB = r.ChangePack
		}
	default:
		return nil
	}
	ev.ReqPB = reqPB
	if reqPB != nil {
		if p, err := converter.FromChangePack(reqPB); err == nil {
			ev.Req = p
		}
	}
	if ok && respPB != nil {
		ev.RespPB = respPB
		if p, err := converter.FromChangePack(respPB); err == nil {
			ev.Resp = p
			ev.OK = true
		}
	}
	return ev
}
