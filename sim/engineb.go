package sim

import (
	"fmt"
	"math/rand/v2"
	"os"
	"runtime"
	"sort"
	"strconv"
	"strings"
	"sync"
	"testing/synctest"
	gotime "time"

	"github.com/yorkie-team/yorkie/pkg/zzsimrt"
)

// Engine B: the step-level scheduler. Several requests are in flight at once;
// every task (a client's script, a delayed duplicate, an admin action, a
// background goroutine of the server) runs on a goroutine of its own, exactly
// one runs at a time, and it gives control back at YIELD POINTS: every storage
// call (the generated proxy), every named-lock operation (pkg/locker, wrapped
// through the build overlay) and every spin on an instrumented mutex. The
// scheduler keeps its own model of the named RW locks (writer, readers,
// announced writers) and resumes a task that wants a lock only when the model
// says the real call will not block, so no task ever blocks on a real lock
// held by a parked task - and a state in which nobody is admissible is a
// deadlock, reported with the wait-for relation.

type lockReq struct {
	op   string // Lock | RLock | TryLock
	name string
}

type lockModel struct {
	writer    *SchedTask
	readers   map[*SchedTask]int
	announced []*SchedTask // writers that called Lock and wait for readers to drain
}

// SchedTask is one schedulable activity.
type SchedTask struct {
	ID      int
	Name    string
	wake    chan struct{}
	parked  bool
	done    bool
	started bool
	point   string
	req     *lockReq
	held    []string // named locks held, in acquisition order
	spins   int
	steps   int
	bg      bool
	err     any
}

// Sched is the step-level scheduler of one parallel section.
type Sched struct {
	mu       sync.Mutex
	w        *World
	R        *rand.Rand
	tasks    []*SchedTask
	gids     map[uint64]*SchedTask
	bgByName map[string]*SchedTask
	locks    map[string]*lockModel
	Trace    []string
	Script   []string   // replay: the recorded schedule to follow
	RP       *rand.Rand // listing orders (map iteration) have a stream of their own
	Viol     *Violation
	Prop     string
	// Daemons run on the scheduler's goroutine after every step, before the next
	// decision (prompt consumers that drain their channels); they report progress.
	Daemons   map[string]func() bool
	FairTicks bool // time passes only while no goroutine of the server waits to be scheduled
	CrashPct  int  // per mille of scheduling decisions that kill the server process (once per section)
	Crashed   bool
	TickPct   int // per cent of scheduling decisions that let simulated time pass instead
	maxStep   int
	t0        gotime.Time
	stepNo    int
	orderViol string
}

func gid() uint64 {
	var buf [64]byte
	n := runtime.Stack(buf[:], false)
	// "goroutine 123 [running]:"
	f := strings.Fields(string(buf[:n]))
	if len(f) < 2 {
		return 0
	}
	id, _ := strconv.ParseUint(f[1], 10, 64)
	return id
}

var schedDebug = os.Getenv("VERIF_SCHED_DEBUG") != ""

func newSched(w *World, seed uint64, prop string) *Sched {
	return &Sched{t0: gotime.Now(), w: w, R: rand.New(rand.NewPCG(seed, 0xb5ad4eceda1ce2a9)), RP: rand.New(rand.NewPCG(seed, 0x5851f42d4c957f2d)), Daemons: map[string]func() bool{}, gids: map[uint64]*SchedTask{}, bgByName: map[string]*SchedTask{}, locks: map[string]*lockModel{}, Prop: prop, maxStep: 20000}
}

// bind makes the calling goroutine act for task t (used by the transport:
// the connect client performs the round trip on a goroutine of its own).
func (s *Sched) bind(t *SchedTask) (undo func()) {
	g := gid()
	s.mu.Lock()
	prev := s.gids[g]
	s.gids[g] = t
	s.mu.Unlock()
	return func() {
		s.mu.Lock()
		if prev == nil {
			delete(s.gids, g)
		} else {
			s.gids[g] = prev
		}
		s.mu.Unlock()
	}
}

func (s *Sched) taskOfGoroutine(create bool) *SchedTask {
	g := gid()
	s.mu.Lock()
	defer s.mu.Unlock()
	t := s.gids[g]
	if t == nil && create {
		// a goroutine the server started on its own (background.Go)
		t = &SchedTask{ID: len(s.tasks), Name: fmt.Sprintf("bg%d", s.countBG()), wake: make(chan struct{}), bg: true, started: true}
		s.tasks = append(s.tasks, t)
		s.gids[g] = t
	}
	return t
}

// BGSteps counts how often a goroutine of the server itself was scheduled.
func (s *Sched) BGSteps() int {
	s.mu.Lock()
	defer s.mu.Unlock()
	n := 0
	for _, t := range s.tasks {
		if t.bg {
			n += t.steps
		}
	}
	return n
}

// BGIdle reports whether no goroutine of the server itself is waiting to be
// scheduled (they are all blocked on their own timers or have returned).
func (s *Sched) BGIdle() bool {
	s.mu.Lock()
	defer s.mu.Unlock()
	for _, t := range s.tasks {
		if t.bg && t.parked {
			return false
		}
	}
	return true
}

func (s *Sched) countBG() int {
	n := 0
	for _, t := range s.tasks {
		if t.bg {
			n++
		}
	}
	return n
}

// Spawn registers a foreground task; it starts parked.
func (s *Sched) Spawn(name string, f func()) *SchedTask {
	t := &SchedTask{ID: len(s.tasks), Name: name, wake: make(chan struct{})}
	s.mu.Lock()
	s.tasks = append(s.tasks, t)
	s.mu.Unlock()
	go func() {
		undo := s.bind(t)
		defer undo()
		defer func() {
			if r := recover(); r != nil {
				t.err = r
			}
			s.mu.Lock()
			t.done = true
			t.parked = false
			s.mu.Unlock()
		}()
		s.yield(t, "start", nil)
		f()
	}()
	return t
}

// yield parks the calling task until the scheduler resumes it.
func (s *Sched) yield(t *SchedTask, point string, req *lockReq) {
	s.mu.Lock()
	t.point, t.req, t.parked = point, req, true
	s.mu.Unlock()
	<-t.wake
}

// YieldHere is the yield point for code that knows nothing about tasks
// (storage proxy, lock hooks, spinning mutexes).
func (s *Sched) YieldHere(point string, req *lockReq) {
	t := s.taskOfGoroutine(true)
	if t == nil {
		return
	}
	s.yield(t, point, req)
}

func (s *Sched) model(name string) *lockModel {
	m := s.locks[name]
	if m == nil {
		m = &lockModel{readers: map[*SchedTask]int{}}
		s.locks[name] = m
	}
	return m
}

// lockClass orders the document locks: doc -> pull -> attachment -> push.
func lockClass(name string) int {
	switch {
	case strings.HasPrefix(name, "doc-push-"):
		return 4
	case strings.HasPrefix(name, "doc-attachment-"):
		return 3
	case strings.HasPrefix(name, "doc-pull-"):
		return 2
	case strings.HasPrefix(name, "doc-watchstream-"):
		return 0
	case strings.HasPrefix(name, "doc-"):
		return 1
	}
	return 0
}

var lockClassName = map[int]string{1: "doc", 2: "doc.pull", 3: "doc.attachment", 4: "doc.push"}

// lockHook is installed as zzsimrt.LockHook for the duration of a parallel section.
func (s *Sched) lockHook(phase, op, name string, ok bool) {
	t := s.taskOfGoroutine(true)
	if t == nil {
		return
	}
	if phase == "before" {
		switch op {
		case "Lock", "RLock":
			s.yield(t, "lock:"+op+":"+normLockName(s.w, name), &lockReq{op: op, name: name})
		case "TryLock":
			s.yield(t, "lock:TryLock:"+normLockName(s.w, name), nil)
		}
		return
	}
	s.mu.Lock()
	defer s.mu.Unlock()
	m := s.model(name)
	switch op {
	case "Lock", "RLock":
		// the model granted it when the task was resumed
	case "TryLock":
		if ok {
			m.writer = t
			s.noteAcquire(t, name)
		}
	case "Unlock":
		if m.writer == t {
			m.writer = nil
		}
		s.noteRelease(t, name)
	case "RUnlock":
		if m.readers[t] > 0 {
			m.readers[t]--
			if m.readers[t] == 0 {
				delete(m.readers, t)
			}
		}
		s.noteRelease(t, name)
	}
}

func (s *Sched) noteAcquire(t *SchedTask, name string) {
	c := lockClass(name)
	if c > 0 {
		for _, h := range t.held {
			if hc := lockClass(h); hc > c && s.orderViol == "" {
				s.orderViol = fmt.Sprintf("task %s acquires %s (%s) while holding %s (%s)", t.Name, lockClassName[c], normLockName(s.w, name), lockClassName[hc], normLockName(s.w, h))
			}
		}
	}
	t.held = append(t.held, name)
}

func (s *Sched) noteRelease(t *SchedTask, name string) {
	for i := len(t.held) - 1; i >= 0; i-- {
		if t.held[i] == name {
			t.held = append(t.held[:i], t.held[i+1:]...)
			return
		}
	}
}

// admissible says whether resuming t now cannot block on a real lock.
func (s *Sched) admissible(t *SchedTask) bool {
	r := t.req
	if r == nil {
		return true
	}
	m := s.model(r.name)
	switch r.op {
	case "Lock":
		others := 0
		for rt := range m.readers {
			if rt != t {
				others++
			}
		}
		if m.writer != nil || others > 0 {
			return false
		}
		// an earlier announced writer goes first
		if len(m.announced) > 0 && m.announced[0] != t {
			return false
		}
		return true
	case "RLock":
		if m.writer != nil {
			return false
		}
		if len(m.announced) > 0 {
			return false // Go's RWMutex refuses new readers while a writer waits
		}
		return true
	}
	return true
}

func (s *Sched) grant(t *SchedTask) {
	r := t.req
	if r == nil {
		return
	}
	m := s.model(r.name)
	switch r.op {
	case "Lock":
		m.writer = t
		for i, a := range m.announced {
			if a == t {
				m.announced = append(m.announced[:i], m.announced[i+1:]...)
				break
			}
		}
	case "RLock":
		m.readers[t]++
	}
	s.noteAcquire(t, r.name)
	t.req = nil
}

// announce: a writer that cannot get the lock yet has, in the real program,
// already called Lock() and thereby closed the door for new readers. Whether
// that has happened yet is a scheduling decision.
func (s *Sched) announce(t *SchedTask) {
	m := s.model(t.req.name)
	for _, a := range m.announced {
		if a == t {
			return
		}
	}
	m.announced = append(m.announced, t)
	s.w.probe("writer_announced_while_readers_hold")
}

// Run drives the tasks until all are done, a deadlock is found, or the step
// budget is exhausted. Must be called from the bubble's scheduling goroutine.
func (s *Sched) Run() {
	prevLock, prevYield := zzsimrt.LockHook, zzsimrt.YieldHook
	zzsimrt.LockHook = s.lockHook
	zzsimrt.YieldHook = func(point string) {
		if t := s.taskOfGoroutine(true); t != nil {
			t.spins++
			s.yield(t, "spin:"+point, nil)
		}
	}
	prevPerm := zzsimrt.PermHook
	zzsimrt.PermHook = func(n int) []int {
		// Go's map iteration order, as far as the server's behaviour depends on it
		// (pkg/cmap listings), is a decision of the seeded scheduler
		s.mu.Lock()
		defer s.mu.Unlock()
		return s.RP.Perm(n)
	}
	defer func() { zzsimrt.LockHook, zzsimrt.YieldHook, zzsimrt.PermHook = prevLock, prevYield, prevPerm }()
	idle := 0
	for s.stepNo = 0; s.stepNo < s.maxStep; s.stepNo++ {
		synctest.Wait()
		for again, rounds := true, 0; again && rounds < 100; rounds++ {
			again = false
			s.mu.Lock()
			names := make([]string, 0, len(s.Daemons))
			for n := range s.Daemons {
				names = append(names, n)
			}
			s.mu.Unlock()
			sort.Strings(names)
			for _, n := range names {
				s.mu.Lock()
				d := s.Daemons[n]
				s.mu.Unlock()
				if d != nil && d() {
					again = true
				}
			}
			if again {
				synctest.Wait() // whoever waited for the daemon's progress runs to its next yield
			}
		}
		s.mu.Lock()
		var ready, waiting, outside []*SchedTask
		allDone := true
		for _, t := range s.tasks {
			if t.done {
				continue
			}
			if !t.parked {
				if t.bg {
					// a goroutine the server started: after synctest.Wait() it is
					// either parked at a yield point or has returned (nothing tells
					// us when it returns; should it only be waiting elsewhere it
					// simply shows up again at its next yield)
					continue
				}
				allDone = false
				outside = append(outside, t) // blocked on a timer / channel of its own
				continue
			}
			allDone = false
			if s.admissible(t) {
				ready = append(ready, t)
			} else {
				waiting = append(waiting, t)
			}
		}
		if allDone {
			s.mu.Unlock()
			return
		}
		// a waiting writer may announce itself (scheduling decision)
		var announcable []*SchedTask
		for _, t := range waiting {
			if t.req != nil && t.req.op == "Lock" {
				already := false
				for _, a := range s.model(t.req.name).announced {
					if a == t {
						already = true
					}
				}
				if !already {
					announcable = append(announcable, t)
				}
			}
		}
		if len(ready) == 0 {
			if len(announcable) > 0 {
				s.announce(announcable[0])
				s.decided(announcable[0].Name + "!announce")
				s.mu.Unlock()
				continue
			}
			if len(outside) > 0 && idle < 200 {
				s.mu.Unlock()
				idle++
				gotime.Sleep(50 * gotime.Millisecond) // let timers fire
				continue
			}
			s.Viol = &Violation{Property: s.Prop, Oracle: "no_deadlock", Class: "deadlock:" + s.deadlockClass(waiting), Detail: s.describeWaiting(waiting, outside), Step: s.w.stepIndex}
			s.mu.Unlock()
			return
		}
		idle = 0
		if schedDebug {
			var rs, ws, os []string
			for _, t := range ready {
				rs = append(rs, t.Name+"@"+t.point)
			}
			for _, t := range waiting {
				ws = append(ws, t.Name)
			}
			for _, t := range outside {
				os = append(os, t.Name)
			}
			s.Trace = append(s.Trace, fmt.Sprintf("{t=%dms ready=%v waiting=%v outside=%v}", gotime.Since(s.t0).Milliseconds(), rs, ws, os))
		}
		bgReady := false
		for _, t := range ready {
			if t.bg {
				bgReady = true
			}
		}
		// by name, not by id: ids follow the order of registration, and a goroutine the
		// server starts registers itself concurrently with whatever its parent does next
		sort.Slice(ready, func(i, j int) bool { return ready[i].Name < ready[j].Name })
		sort.Slice(announcable, func(i, j int) bool { return announcable[i].Name < announcable[j].Name })
		var t *SchedTask
		var tick gotime.Duration
		var ann *SchedTask
		crash := false
		if e, ok := s.nextScripted(ready, announcable); ok {
			// replay: the recorded schedule decides (entries that no longer apply -
			// their task was removed by minimisation - are skipped)
			t, tick, ann, crash = e.task, e.tick, e.announce, e.crash
		} else if s.CrashPct > 0 && !s.Crashed && s.stepNo > 3 && s.R.IntN(1000) < s.CrashPct {
			crash = true
		} else {
			if s.TickPct > 0 && !(s.FairTicks && bgReady) && s.R.IntN(100) < s.TickPct {
				// scheduling decision: let simulated time pass (timers, tickers, timeouts fire)
				tick = []gotime.Duration{10, 40, 110, 260}[s.R.IntN(4)] * gotime.Millisecond
			} else {
				n := len(ready)
				if len(announcable) > 0 {
					n++ // one more choice: let a writer announce itself
				}
				k := s.R.IntN(n)
				if k >= len(ready) {
					ann = announcable[s.R.IntN(len(announcable))]
				} else {
					t = ready[k]
				}
			}
		}
		if crash {
			// the server process dies HERE: every request in flight is lost, whatever was
			// stored so far survives, nothing more is stored. The tasks go on and unwind
			// (every further storage call fails, no response reaches a client).
			s.Crashed = true
			s.w.gen.dead = true
			tag := "crash!"
			if s.w.inPushCheckpointWindow() {
				tag = "crash!dupwin" // between CreateChangeInfos and UpdateClientInfoAfterPushPull of some request
			}
			s.decided(tag)
			s.w.fault("server_crash_inside_section")
			s.mu.Unlock()
			continue
		}
		if tick > 0 {
			s.decided(fmt.Sprintf("tick+%dms", tick.Milliseconds()))
			s.mu.Unlock()
			s.w.fault("clock_advance_by_scheduler")
			gotime.Sleep(tick)
			continue
		}
		if ann != nil {
			s.announce(ann)
			s.decided(ann.Name + "!announce")
			s.mu.Unlock()
			continue
		}
		s.grant(t)
		t.parked = false
		t.steps++
		s.decided(t.Name + "@" + t.point)
		s.mu.Unlock()
		t.wake <- struct{}{}
	}
	s.Viol = &Violation{Property: s.Prop, Oracle: "requests_complete", Class: "step_budget_exhausted", Detail: fmt.Sprintf("%d scheduling steps without completing", s.maxStep), Step: s.w.stepIndex}
}

type scripted struct {
	task     *SchedTask
	tick     gotime.Duration
	announce *SchedTask
	crash    bool
}

// decided records one scheduling decision (the schedule of the section is part of
// the trace and of the replay file).
func (s *Sched) decided(d string) {
	s.Trace = append(s.Trace, d)
	if StepSink != nil {
		StepSink("sched", d)
	}
}

// nextScripted takes the next entry of the recorded schedule that still applies.
// Entry forms: "tick+<n>ms", "<task>!announce", "<task>@<point>".
func (s *Sched) nextScripted(ready, announcable []*SchedTask) (scripted, bool) {
	for len(s.Script) > 0 {
		e := s.Script[0]
		s.Script = s.Script[1:]
		if strings.HasPrefix(e, "crash!") {
			if s.Crashed {
				continue
			}
			return scripted{crash: true}, true
		}
		if strings.HasPrefix(e, "tick+") {
			ms, err := strconv.Atoi(strings.TrimSuffix(strings.TrimPrefix(e, "tick+"), "ms"))
			if err != nil || ms <= 0 {
				continue
			}
			return scripted{tick: gotime.Duration(ms) * gotime.Millisecond}, true
		}
		if name, ok := strings.CutSuffix(e, "!announce"); ok {
			for _, a := range announcable {
				if a.Name == name {
					return scripted{announce: a}, true
				}
			}
			continue
		}
		name := e
		if i := strings.Index(e, "@"); i >= 0 {
			name = e[:i]
		}
		for _, t := range ready {
			if t.Name == name {
				return scripted{task: t}, true
			}
		}
	}
	return scripted{}, false
}

func (s *Sched) deadlockClass(waiting []*SchedTask) string {
	var parts []string
	for _, t := range waiting {
		if t.req != nil {
			parts = append(parts, fmt.Sprintf("%s:%s", t.req.op, lockClassName[lockClass(t.req.name)]))
		}
	}
	sort.Strings(parts)
	return strings.Join(parts, ",")
}

func (s *Sched) describeWaiting(waiting, outside []*SchedTask) string {
	var sb strings.Builder
	for _, t := range waiting {
		fmt.Fprintf(&sb, "\n    %s waits for %s(%s)", t.Name, t.req.op, normLockName(s.w, t.req.name))
		m := s.model(t.req.name)
		if m.writer != nil {
			fmt.Fprintf(&sb, " held for writing by %s", m.writer.Name)
		}
		for r := range m.readers {
			fmt.Fprintf(&sb, " held for reading by %s", r.Name)
		}
		for _, a := range m.announced {
			if a != t {
				fmt.Fprintf(&sb, " writer %s waits in front", a.Name)
			}
		}
		if len(t.held) > 0 {
			var hs []string
			for _, h := range t.held {
				hs = append(hs, normLockName(s.w, h))
			}
			fmt.Fprintf(&sb, "; holds %s", strings.Join(hs, ", "))
		}
	}
	for _, t := range outside {
		fmt.Fprintf(&sb, "\n    %s is blocked outside the scheduler's knowledge (at %s)", t.Name, t.point)
	}
	return sb.String()
}

// normLockName replaces object ids in lock names by stable names.
func normLockName(w *World, name string) string {
	for id, n := range w.ActorNames {
		name = strings.ReplaceAll(name, id, n)
	}
	return normErr(name)
}
