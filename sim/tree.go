package sim

import (
	"fmt"
	"sort"
	"strings"

	yjson "github.com/yorkie-team/yorkie/pkg/document/json"
	"github.com/yorkie-team/yorkie/pkg/document/yson"
)

// XNode is a plain XML tree used both to lay out tree edits and as the
// reference model for trees.
type XNode struct {
	Tag      string // "" for text
	Text     string
	Attrs    map[string]string
	Children []*XNode
}

// Size is the size of the node in the index space of the tree API.
func (n *XNode) Size() int {
	if n.Tag == "" {
		return len(utf16Of(n.Text))
	}
	s := 2
	for _, c := range n.Children {
		s += c.Size()
	}
	return s
}

// ContentSize is the size of what is between the tags.
func (n *XNode) ContentSize() int {
	if n.Tag == "" {
		return n.Size()
	}
	return n.Size() - 2
}

// XML renders the node the way crdt.Tree.ToXML does.
func (n *XNode) XML() string {
	if n.Tag == "" {
		return n.Text
	}
	var sb strings.Builder
	sb.WriteString("<" + n.Tag)
	keys := make([]string, 0, len(n.Attrs))
	for k := range n.Attrs {
		keys = append(keys, k)
	}
	sort.Strings(keys)
	for _, k := range keys {
		fmt.Fprintf(&sb, ` %s="%s"`, k, n.Attrs[k])
	}
	sb.WriteString(">")
	for _, c := range n.Children {
		sb.WriteString(c.XML())
	}
	sb.WriteString("</" + n.Tag + ">")
	return sb.String()
}

// ParseXML parses the restricted XML the simulator produces (no escapes, no
// '<' or '"' in text or attribute values).
func ParseXML(s string) (*XNode, error) {
	p := &xparser{s: s}
	n, err := p.node()
	if err != nil {
		return nil, err
	}
	if p.i != len(s) {
		return nil, fmt.Errorf("trailing data at %d in %q", p.i, s)
	}
	return n, nil
}

type xparser struct {
	s string
	i int
}

func (p *xparser) node() (*XNode, error) {
	if p.i >= len(p.s) || p.s[p.i] != '<' {
		return nil, fmt.Errorf("expected '<' at %d in %q", p.i, p.s)
	}
	end := strings.IndexByte(p.s[p.i:], '>')
	if end < 0 {
		return nil, fmt.Errorf("unterminated tag in %q", p.s)
	}
	head := p.s[p.i+1 : p.i+end]
	p.i += end + 1
	n := &XNode{}
	parts := splitAttrs(head)
	n.Tag = parts[0]
	for _, a := range parts[1:] {
		eq := strings.IndexByte(a, '=')
		if eq < 0 {
			return nil, fmt.Errorf("bad attr %q", a)
		}
		if n.Attrs == nil {
			n.Attrs = map[string]string{}
		}
		n.Attrs[a[:eq]] = strings.Trim(a[eq+1:], `"`)
	}
	for {
		if p.i >= len(p.s) {
			return nil, fmt.Errorf("unterminated element %q", n.Tag)
		}
		if strings.HasPrefix(p.s[p.i:], "</") {
			end := strings.IndexByte(p.s[p.i:], '>')
			p.i += end + 1
			return n, nil
		}
		if p.s[p.i] == '<' {
			c, err := p.node()
			if err != nil {
				return nil, err
			}
			n.Children = append(n.Children, c)
			continue
		}
		j := strings.IndexByte(p.s[p.i:], '<')
		if j < 0 {
			return nil, fmt.Errorf("unterminated text in %q", p.s)
		}
		n.Children = append(n.Children, &XNode{Text: p.s[p.i : p.i+j]})
		p.i += j
	}
}

func splitAttrs(head string) []string {
	var out []string
	inq := false
	cur := strings.Builder{}
	for i := 0; i < len(head); i++ {
		c := head[i]
		if c == '"' {
			inq = !inq
		}
		if c == ' ' && !inq {
			if cur.Len() > 0 {
				out = append(out, cur.String())
				cur.Reset()
			}
			continue
		}
		cur.WriteByte(c)
	}
	if cur.Len() > 0 {
		out = append(out, cur.String())
	}
	if len(out) == 0 {
		out = []string{""}
	}
	return out
}

func defaultTreeRoot(n int) *yjson.TreeNode {
	k := mod(n, 3) + 1
	root := &yjson.TreeNode{Type: "doc"}
	for i := 0; i < k; i++ {
		root.Children = append(root.Children, yson.TreeNode{
			Type:     "p",
			Children: []yson.TreeNode{{Type: "text", Value: fmt.Sprintf("t%d%c", mod(n, 10), 'a'+byte(i))}},
		})
	}
	return root
}

// paragraph layout of a structure-preserving tree: <doc><p>text</p>*</doc>
type para struct {
	start int // index of the position before the open tag
	tlen  int // length of the text content
	ok    bool
}

func layout(t *yjson.Tree) (ps []para, total int, err error) {
	x, err := ParseXML(t.ToXML())
	if err != nil {
		return nil, 0, err
	}
	off := 0
	for _, c := range x.Children {
		if c.Tag == "" {
			off += c.Size()
			continue
		}
		p := para{start: off, ok: true}
		for _, g := range c.Children {
			if g.Tag != "" {
				p.ok = false
			}
		}
		p.tlen = c.ContentSize()
		ps = append(ps, p)
		off += c.Size()
	}
	return ps, off, nil
}

func okParas(ps []para) []int {
	var out []int
	for i, p := range ps {
		if p.ok {
			out = append(out, i)
		}
	}
	return out
}

// applyTreeEdit performs the structure-preserving tree edits (text edits
// inside one element, whole-element insert/delete, style) and, for the C19
// profile, raw index edits with split levels.
func applyTreeEdit(t *yjson.Tree, e *Edit) bool {
	if e.K == "r.raw" {
		// raw edit by absolute indices (C19): from I, to J, split level L
		n := t.Len()
		if e.I < 0 || e.J < e.I || e.J > n {
			return false
		}
		var content *yjson.TreeNode
		if e.T != "" {
			content = &yjson.TreeNode{Type: e.T}
			if e.T == "text" {
				content.Value = e.S
			} else if e.S != "" {
				content.Children = []yson.TreeNode{{Type: "text", Value: e.S}}
			}
		}
		t.Edit(e.I, e.J, content, e.L)
		return true
	}
	if e.K == "r.rawstyle" {
		n := t.Len()
		if e.I < 0 || e.J <= e.I || e.J > n {
			return false
		}
		if len(e.R) > 0 {
			t.RemoveStyle(e.I, e.J, e.R)
		} else {
			t.Style(e.I, e.J, e.A)
		}
		return true
	}
	ps, total, err := layout(t)
	if err != nil {
		return false
	}
	oks := okParas(ps)
	switch e.K {
	case "r.eins":
		b := mod(e.I, len(ps)+1)
		pos := total
		if b < len(ps) {
			pos = ps[b].start
		}
		node := &yjson.TreeNode{Type: "p"}
		if e.S != "" {
			node.Children = []yson.TreeNode{{Type: "text", Value: e.S}}
		}
		if len(e.A) > 0 {
			node.Attributes = e.A
		}
		if e.Flag() == "path" {
			t.EditByPath([]int{b}, []int{b}, node, 0)
		} else {
			t.Edit(pos, pos, node, 0)
		}
		return true
	}
	if len(oks) == 0 {
		return false
	}
	pi := oks[mod(e.I, len(oks))]
	p := ps[pi]
	switch e.K {
	case "r.tins":
		if e.S == "" {
			return false
		}
		off := mod(e.J, p.tlen+1)
		node := &yjson.TreeNode{Type: "text", Value: e.S}
		if e.Flag() == "path" {
			t.EditByPath([]int{pi, off}, []int{pi, off}, node, 0)
		} else {
			t.Edit(p.start+1+off, p.start+1+off, node, 0)
		}
	case "r.tdel":
		if p.tlen == 0 {
			return false
		}
		from := mod(e.J, p.tlen)
		l := e.L
		if l < 1 {
			l = 1
		}
		to := from + l
		if to > p.tlen {
			to = p.tlen
		}
		var node *yjson.TreeNode
		if e.S != "" {
			node = &yjson.TreeNode{Type: "text", Value: e.S}
		}
		if e.Flag() == "path" {
			t.EditByPath([]int{pi, from}, []int{pi, to}, node, 0)
		} else {
			t.Edit(p.start+1+from, p.start+1+to, node, 0)
		}
	case "r.edel":
		if len(ps) <= 1 {
			return false // keep at least one paragraph so later edits have a target
		}
		t.Edit(p.start, p.start+p.tlen+2, nil, 0)
	case "r.style":
		if len(e.A) == 0 {
			return false
		}
		if e.Flag() == "path" {
			t.StyleByPath([]int{pi}, []int{pi + 1}, e.A)
		} else {
			t.Style(p.start, p.start+1, e.A)
		}
	case "r.rmstyle":
		if len(e.R) == 0 {
			return false
		}
		t.RemoveStyle(p.start, p.start+1, e.R)
	default:
		return false
	}
	return true
}

// Flag returns the variant flag of a tree edit ("path" = use the *ByPath API).
func (e *Edit) Flag() string { return e.T }

func utf16Of(s string) []uint16 {
	var out []uint16
	for _, r := range s {
		if r >= 0x10000 {
			r -= 0x10000
			out = append(out, uint16(0xd800+(r>>10)), uint16(0xdc00+(r&0x3ff)))
		} else {
			out = append(out, uint16(r))
		}
	}
	return out
}

func parseYSON(s string) (any, error) {
	s = strings.TrimSpace(s)
	switch {
	case strings.HasPrefix(s, "{"):
		var o yson.Object
		if err := yson.Unmarshal(s, &o); err != nil {
			return nil, err
		}
		return o, nil
	case strings.HasPrefix(s, "["):
		var a yson.Array
		if err := yson.Unmarshal(s, &a); err != nil {
			return nil, err
		}
		return a, nil
	case strings.HasPrefix(s, "Text("):
		var t yson.Text
		if err := yson.Unmarshal(s, &t); err != nil {
			return nil, err
		}
		return t, nil
	case strings.HasPrefix(s, "Tree("):
		var t yson.Tree
		if err := yson.Unmarshal(s, &t); err != nil {
			return nil, err
		}
		return t, nil
	case strings.HasPrefix(s, "Counter(") || strings.HasPrefix(s, "DedupCounter("):
		var c yson.Counter
		if err := yson.Unmarshal(s, &c); err != nil {
			return nil, err
		}
		return c, nil
	}
	return nil, fmt.Errorf("unsupported YSON literal %q", s)
}
