package sim

import (
	"context"
	"fmt"
	"math/rand/v2"
	gotime "time"

	"github.com/yorkie-team/yorkie/api/types"
	"github.com/yorkie-team/yorkie/api/types/events"
	"github.com/yorkie-team/yorkie/pkg/document/time"
	"github.com/yorkie-team/yorkie/server/backend/pubsub"
)

// C17: the real pubsub package under the step-level scheduler. Subscribers,
// publishers and the batch publisher's own goroutine interleave at every
// instrumented mutex acquisition; the scheduler also decides when simulated
// time advances (batch window 100 ms, publish timeout 100 ms).

type psEvent struct {
	step int
	at   gotime.Duration
	kind string // subscribed unsub_invoked unsub_returned publish_invoked publish_returned received closed
	who  int    // subscriber / publisher slot
	from int    // received: publisher slot
}

type psState struct {
	ps      *pubsub.PubSub
	docKey  types.DocRefKey
	hist    []psEvent
	start   gotime.Time
	stalled map[int]bool
}

func psActor(i int) time.ActorID {
	a, _ := time.ActorIDFromHex(fmt.Sprintf("%024x", 0x1000+i))
	return a
}

func psSlot(a time.ActorID) int {
	for i := 0; i < 16; i++ {
		if psActor(i).Compare(a) == 0 {
			return i
		}
	}
	return -1
}

func (w *World) psInit() *psState {
	if w.PS == nil {
		w.PS = &psState{ps: pubsub.New(), docKey: types.DocRefKey{ProjectID: "000000000000000000000001", DocID: "000000000000000000000002"}, start: gotime.Now(), stalled: map[int]bool{}}
	}
	return w.PS
}

func (p *psState) rec(w *World, kind string, who, from int) {
	step := 0
	if w.Sched != nil {
		step = w.Sched.stepNo
	}
	p.hist = append(p.hist, psEvent{step: step, at: gotime.Since(p.start), kind: kind, who: who, from: from})
}

// execPS runs one lane of the pubsub workload; it yields between its calls.
func (w *World) execPS(st *Step) (res StepResult) {
	res.Out = "ok"
	p := w.psInit()
	s := w.Sched
	pause := func(point string) {
		if s != nil {
			s.YieldHere(point, nil)
		}
	}
	ctx := context.Background()
	switch st.Flag {
	case "subscriber":
		k := st.C
		sub, _, err := p.ps.Subscribe(ctx, psActor(k), p.docKey, 0)
		if err != nil {
			res.Err = err
			res.Out = "err"
			return res
		}
		p.rec(w, "subscribed", k, -1)
		stall := st.J > 0
		p.stalled[k] = stall
		closed := false
		drain := func() bool {
			progress := false
			for {
				select {
				case ev, ok := <-sub.Events():
					if !ok {
						if !closed {
							closed = true
							p.rec(w, "closed", k, -1)
						}
						return progress
					}
					progress = true
					p.rec(w, "received", k, psSlot(ev.Actor))
				default:
					return progress
				}
			}
		}
		name := fmt.Sprintf("consumer%02d", k)
		if !stall && s != nil {
			// a prompt consumer: drains after every scheduling step, i.e. always
			// well inside the publish timeout
			s.mu.Lock()
			s.Daemons[name] = drain
			s.mu.Unlock()
		}
		for i := 0; i < st.I && !closed; i++ {
			pause("consume")
			if stall {
				// a slow consumer: leaves its channel full for longer than the publish timeout
				gotime.Sleep(250 * gotime.Millisecond)
				// a goroutine woken by a timer runs beside whoever else the same instant
				// woke: it touches nothing shared before the scheduler says so
				pause("woke")
				if i%3 == 2 {
					drain()
				}
			}
		}
		pause("before_unsubscribe")
		if !stall {
			// linger: whatever was published so far must arrive within bounded time
			// (batch window 100 ms + publish timeouts of slow peers)
			// "Bounded time": the batch window (100 ms) plus at most one publish
			// timeout (100 ms) per slow subscriber and event, for at most two
			// coalesced events per publisher - well under 8 simulated seconds for
			// 4 subscribers x 3 publishers - given a FAIR scheduler: in this
			// profile simulated time only passes while no goroutine of the server
			// is waiting to be scheduled (Sched.FairTicks).
			p.rec(w, "linger_start", k, -1)
			t0 := gotime.Now()
			for !closed && gotime.Since(t0) < 8*gotime.Second {
				gotime.Sleep(150 * gotime.Millisecond)
				pause("linger")
			}
			if !closed {
				p.rec(w, "lingered", k, -1)
			}
		}
		if s != nil {
			s.mu.Lock()
			delete(s.Daemons, name)
			s.mu.Unlock()
		}
		drain()
		p.rec(w, "unsub_invoked", k, -1)
		p.ps.Unsubscribe(ctx, p.docKey, sub)
		p.rec(w, "unsub_returned", k, -1)
		// the channel is closed now: at most the one buffered event is left, then nothing
		got := 0
		for i := 0; i < 3; i++ {
			select {
			case _, ok := <-sub.Events():
				if ok {
					got++
				}
			default:
			}
			pause("after_unsubscribe")
		}
		if got > 1 {
			p.rec(w, "received_after_unsubscribe", k, -1)
		}
	case "publisher":
		pub := st.C
		for i := 0; i < st.I; i++ {
			pause("publish")
			p.rec(w, "publish_invoked", pub, -1)
			p.ps.Publish(ctx, psActor(pub), events.DocEvent{Type: events.DocChanged, Actor: psActor(pub), Key: p.docKey})
			p.rec(w, "publish_returned", pub, -1)
			if st.J > 0 {
				gotime.Sleep(gotime.Duration(st.J) * gotime.Millisecond)
				pause("woke")
			}
		}
	}
	return res
}

type pubsubMonitor struct{ prop string }

func (m *pubsubMonitor) AfterStep(rc *RunCtx, i int, st *Step, res *StepResult) *Violation {
	if st.Op != "par" || rc.W.PS == nil {
		return nil
	}
	p := rc.W.PS
	hist := p.hist
	bad := func(oracle, class, detail string) *Violation {
		return &Violation{Property: m.prop, Oracle: oracle, Class: class, Detail: detail + "\n    history: " + psHistory(hist), Step: i}
	}
	// per subscriber windows
	type win struct{ subAt, unsubAt, unsubRet, lingerAt, lingerStart int }
	wins := map[int]*win{}
	for idx, e := range hist {
		switch e.kind {
		case "subscribed":
			wins[e.who] = &win{subAt: idx, unsubAt: 1 << 30, unsubRet: 1 << 30, lingerAt: -1, lingerStart: -1}
		case "linger_start":
			if w := wins[e.who]; w != nil {
				w.lingerStart = idx
			}
		case "lingered":
			if w := wins[e.who]; w != nil {
				w.lingerAt = idx
			}
		case "unsub_invoked":
			if w := wins[e.who]; w != nil {
				w.unsubAt = idx
			}
		case "unsub_returned":
			if w := wins[e.who]; w != nil {
				w.unsubRet = idx
			}
		case "received_after_unsubscribe":
			return bad("nothing_after_unsubscribe", "event_after_unsubscribe", fmt.Sprintf("subscriber %d received an event after Unsubscribe returned", e.who))
		}
	}
	for pi, e := range hist {
		if e.kind != "publish_invoked" {
			continue
		}
		for k, w := range wins {
			if k == e.who || p.stalled[k] {
				continue // own events are filtered; slow consumers may legitimately be dropped
			}
			if !(w.subAt < pi && w.unsubAt > pi) {
				continue
			}
			// bounded time: the subscriber stayed and kept draining for 900 ms after
			// the publish was invoked (its lingering phase started after it)
			if w.lingerAt < 0 || w.lingerStart < pi {
				continue // the publish came after the subscriber began its bounded wait
			}
			rc.W.probe("delivery_obligation")
			ok := false
			for ri := pi + 1; ri < len(hist); ri++ {
				r := hist[ri]
				if r.who == k && (r.kind == "closed" || (r.kind == "received" && r.from == e.who)) {
					ok = true
					break
				}
			}
			if !ok {
				return bad("watcher_is_told", "event_never_delivered",
					fmt.Sprintf("subscriber %d was subscribed before publisher %d published (history index %d) and unsubscribed only later, drains promptly, but never received an event of that publisher nor a closed channel", k, e.who, pi))
			}
		}
	}
	if ids := p.ps.ClientIDs(p.docKey); len(ids) != 0 {
		return bad("no_subscription_leak", "subscription_leaked", fmt.Sprintf("%d subscriptions left after everybody unsubscribed", len(ids)))
	}
	rc.W.probe("pubsub_history_checked")
	return nil
}

func psHistory(h []psEvent) string {
	s := ""
	for i, e := range h {
		if i > 80 {
			s += " ..."
			break
		}
		s += fmt.Sprintf(" [%d t=%dms %s %d", i, e.at.Milliseconds(), e.kind, e.who)
		if e.kind == "received" {
			s += fmt.Sprintf("<-%d", e.from)
		}
		s += "]"
	}
	return s
}

func (m *pubsubMonitor) Final(rc *RunCtx) *Violation { return nil }

func c17Config(r *rand.Rand) *RunConfig {
	return &RunConfig{Clients: 0, Docs: 0, Projects: 1, Steps: 1, SnapshotThreshold: 500, SnapshotInterval: 500, SnapshotCacheSize: 10,
		Extra: map[string]int{"subs": 1 + r.IntN(4), "pubs": 1 + r.IntN(3), "stall_pct": 25 * r.IntN(3), "tick_pct": 5 + r.IntN(25)}}
}

func c17Next(rc *RunCtx) *Step {
	if rc.I > 0 {
		return nil
	}
	r, x := rc.R, rc.Cfg.Extra
	par := &Step{Op: "par", I: r.IntN(1 << 30), Flag: "ticks"}
	for k := 0; k < x["subs"]; k++ {
		st := Step{Op: "ps", Flag: "subscriber", C: k, I: 3 + r.IntN(8)}
		if r.IntN(100) < x["stall_pct"] {
			st.J = 1
		}
		par.Sub = append(par.Sub, st)
	}
	for p := 0; p < x["pubs"]; p++ {
		// some publishers are also subscribers (an editor that watches), some are not
		slot := p
		if r.IntN(2) == 0 {
			slot = 8 + p
		}
		par.Sub = append(par.Sub, Step{Op: "ps", Flag: "publisher", C: slot, I: 1 + r.IntN(4), J: []int{0, 0, 30, 120}[r.IntN(4)]})
	}
	return par
}

func init() {
	Register(&Profile{Name: "c17_pubsub", Property: "C17", Config: c17Config, Next: c17Next, NoQuiesce: true,
		Monitors: func(rc *RunCtx) []Monitor { return []Monitor{&schedMonitor{prop: "C17"}, &pubsubMonitor{prop: "C17"}} },
		Nontrivial: func(rc *RunCtx) bool {
			p := rc.W.Stats.Probes
			return p["pubsub_history_checked"] > 0 && p["delivery_obligation"] > 0 && p["sched_steps"] >= 10
		}})
}
