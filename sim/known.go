package sim

import "math/rand/v2"

// applyKnownFindingSplits keeps the ingredients of an unfixed finding that is
// owned by another property's check out of this run's configuration (see
// DESIGN.md §9 and known_findings.json).
func applyKnownFindingSplits(r *rand.Rand, cfg *RunConfig) {
	_ = r
	_ = cfg
}
