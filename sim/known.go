package sim

import "math/rand/v2"

// applyKnownFindingSplits keeps the ingredients of an unfixed finding that is
// owned by another property's check out of this run's configuration (see
// DESIGN.md §9 and known_findings.json). Each rule names the finding it
// belongs to and disappears when that finding is fixed.
//
// The rules are narrow on purpose: a run either has garbage collection
// switched off everywhere and keeps the whole alphabet, or keeps GC and drops
// one of the two operations a finding needs.
func applyKnownFindingSplits(r *rand.Rand, cfg *RunConfig) {
	gcOn := !(cfg.ClientDisableGC && cfg.ServerDisableGC)
	if !gcOn {
		return
	}
	risky := (cfg.Kinds["arrset"] > 0 && cfg.Kinds["arrmove"] > 0) || cfg.Kinds["tree"] > 0
	if risky && r.IntN(2) == 0 {
		cfg.ClientDisableGC, cfg.ServerDisableGC = true, true
		return
	}
	// F-C03-array-set-after-move: ArraySet on a moved element resolves to a
	// slot that depends on whether the dead original slot was purged.
	if cfg.Kinds["arrset"] > 0 && cfg.Kinds["arrmove"] > 0 {
		if r.IntN(2) == 0 {
			delete(cfg.Kinds, "arrset")
		} else {
			delete(cfg.Kinds, "arrmove")
		}
	}
	// F-C03-tree-edit-in-deleted-element: a text edit inside an element that
	// a peer deleted concurrently fails to apply once the peer collected it.
	if cfg.Kinds["tree"] > 0 {
		cfg.Kinds["tree_noedel"] = 1
	}
}
