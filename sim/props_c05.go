package sim

import (
	"context"
	"fmt"
	"github.com/yorkie-team/yorkie/pkg/attachable"
	"math/rand/v2"
	"sort"
	"strings"

	"github.com/yorkie-team/yorkie/pkg/document/crdt"
	yjson "github.com/yorkie-team/yorkie/pkg/document/json"
)

// Conservation workload: every client owns an increase-only counter, an
// object it only adds unique keys to and a text it only appends to. Whatever
// the interleaving, at quiescence every replica must show every issued
// increment once, every key once and every token once, in order.

func consEdit(g *Gen, c int) Edit {
	g.seq++
	switch g.R.IntN(3) {
	case 0:
		return Edit{K: "cons.inc", I: c, V: &Val{T: "int", I: int64(1 + g.R.IntN(5))}}
	case 1:
		return Edit{K: "cons.key", I: c, Key: fmt.Sprintf("n%d", g.seq), V: &Val{T: "int", I: int64(g.seq)}}
	default:
		return Edit{K: "cons.tok", I: c, S: fmt.Sprintf("%d.%d;", c, g.seq)}
	}
}

func applyConsEdit(root *yjson.Object, e *Edit) bool {
	c := e.I
	switch e.K {
	case "cons.inc":
		k := fmt.Sprintf("k%d", c)
		if !root.Has(k) {
			root.SetNewCounter(k, 0)
		}
		if _, ok := root.Object.Get(k).(*crdt.Counter); !ok {
			return false
		}
		root.GetCounter(k).Increase(int(e.V.I))
	case "cons.key":
		k := fmt.Sprintf("tk%d", c)
		if !root.Has(k) {
			root.SetNewObject(k)
		}
		if _, ok := root.Object.Get(k).(*crdt.Object); !ok {
			return false
		}
		root.GetObject(k).SetInteger(e.Key, int(e.V.I))
	case "cons.tok":
		k := fmt.Sprintf("tx%d", c)
		if !root.Has(k) {
			root.SetNewText(k)
		}
		if _, ok := root.Object.Get(k).(*crdt.Text); !ok {
			return false
		}
		t := root.GetText(k)
		n := textLen(t)
		t.Edit(n, n, e.S)
	default:
		return false
	}
	return true
}

type conservationMonitor struct {
	prop   string
	incs   map[int]int64
	keys   map[int][]string
	toks   map[int][]string
	lostOK map[int]bool // slots whose unsent edits were legitimately abandoned
}

func newConservation(prop string) *conservationMonitor {
	return &conservationMonitor{prop: prop, incs: map[int]int64{}, keys: map[int][]string{}, toks: map[int][]string{}, lostOK: map[int]bool{}}
}

func (m *conservationMonitor) AfterStep(rc *RunCtx, i int, st *Step, res *StepResult) *Violation {
	switch st.Op {
	case "update":
		if res.Out != "ok" {
			return nil
		}
		if sd := rc.W.Client(st.C).Docs[st.D]; sd == nil || sd.Doc.Status() != attachable.StatusAttached {
			// an edit on a document that is not attached (a minimised trace may have lost the
			// attach in front of it) goes nowhere by design
			return nil
		}
		for _, e := range st.Edits {
			switch e.K {
			case "cons.inc":
				m.incs[e.I] += e.V.I
			case "cons.key":
				m.keys[e.I] = append(m.keys[e.I], e.Key)
			case "cons.tok":
				m.toks[e.I] = append(m.toks[e.I], e.S)
			}
			if strings.HasPrefix(e.K, "cons.") {
				rc.W.probe("conservation_edit")
			}
		}
	case "newclient", "deactivate":
		// unsent edits of a client that goes away for good are lost by design
		sc := rc.W.Client(st.C)
		_ = sc
		m.lostOK[st.C] = true
	}
	return nil
}

func (m *conservationMonitor) Final(rc *RunCtx) *Violation {
	reps := rc.AttachedReplicas(0)
	slots := map[int]bool{}
	for c := range m.incs {
		slots[c] = true
	}
	for c := range m.keys {
		slots[c] = true
	}
	for c := range m.toks {
		slots[c] = true
	}
	var order []int
	for c := range slots {
		order = append(order, c)
	}
	sort.Ints(order)
	for _, sc := range reps {
		root := sc.Docs[0].Doc.Root()
		for _, c := range order {
			if m.lostOK[c] {
				continue
			}
			if _, gone := rc.Excluded[c]; gone {
				continue // deactivated by the server on its own: its unsent edits are lost by design
			}
			rc.W.probe("conservation_checked")
			if want := m.incs[c]; want != 0 {
				var got int64 = -1
				if cnt, ok := root.Object.Get(fmt.Sprintf("k%d", c)).(*crdt.Counter); ok {
					switch v := cnt.Value().(type) {
					case int32:
						got = int64(v)
					case int64:
						got = v
					}
				}
				if got != want {
					cls := "increase_lost"
					if got > want {
						cls = "increase_applied_twice"
					}
					return &Violation{Property: m.prop, Oracle: "every_increase_counted_once", Class: cls,
						Detail: fmt.Sprintf("replica %d: counter k%d = %d, increments issued sum to %d", sc.Idx, c, got, want), Step: rc.I}
				}
			}
			if want := m.keys[c]; len(want) > 0 {
				obj, _ := root.Object.Get(fmt.Sprintf("tk%d", c)).(*crdt.Object)
				for _, k := range want {
					if obj == nil || !obj.Has(k) {
						return &Violation{Property: m.prop, Oracle: "every_edit_present", Class: "key_lost",
							Detail: fmt.Sprintf("replica %d: key %s of client %d is missing", sc.Idx, k, c), Step: rc.I}
					}
				}
			}
			if want := m.toks[c]; len(want) > 0 {
				got := ""
				if t, ok := root.Object.Get(fmt.Sprintf("tx%d", c)).(*crdt.Text); ok {
					got = t.String()
				}
				if exp := strings.Join(want, ""); got != exp {
					cls := "token_lost"
					if len(got) > len(exp) {
						cls = "token_applied_twice"
					}
					return &Violation{Property: m.prop, Oracle: "every_token_exactly_once_in_order", Class: cls,
						Detail: fmt.Sprintf("replica %d: text of client %d is %q, expected %q", sc.Idx, c, got, exp), Step: rc.I}
				}
			}
		}
	}
	return nil
}

// logShapeMonitor reads the stored change log: serverSeq 1..N, and each
// (actor, clientSeq) at most once per attachment.
type logShapeMonitor struct {
	prop       string
	perAttach  bool
	reattached map[int]bool
}

func (m *logShapeMonitor) AfterStep(rc *RunCtx, i int, st *Step, res *StepResult) *Violation {
	return nil
}

func (m *logShapeMonitor) Final(rc *RunCtx) *Violation {
	ctx := context.Background()
	w := rc.W
	for d := 0; d < rc.Cfg.Docs; d++ {
		info, err := w.mem.FindDocInfoByKey(ctx, w.Projects[0].ID, docKey(d))
		if err != nil {
			continue
		}
		infos, err := w.mem.FindChangeInfosBetweenServerSeqs(ctx, info.RefKey(), 1, info.ServerSeq)
		if err != nil {
			return &Violation{Property: m.prop, Oracle: "log_readable", Class: "log_read_failed", Detail: err.Error(), Step: rc.I}
		}
		seen := map[string]int64{}
		lastCSeq := map[string]uint32{}
		var expect int64 = 1
		for _, ci := range infos {
			if ci.ServerSeq != expect {
				return &Violation{Property: m.prop, Oracle: "log_gap_free", Class: "server_seq_gap_or_duplicate",
					Detail: fmt.Sprintf("doc %d: expected serverSeq %d, found %d", d, expect, ci.ServerSeq), Step: rc.I}
			}
			expect++
			actor := ci.ActorID.String()
			// a re-attachment restarts the client sequence: a drop in
			// clientSeq starts a new attachment of that actor
			if ci.ClientSeq <= lastCSeq[actor] && m.perAttach {
				for k := range seen {
					if strings.HasPrefix(k, actor+"/") {
						delete(seen, k)
					}
				}
			}
			k := fmt.Sprintf("%s/%d", actor, ci.ClientSeq)
			if prev, dup := seen[k]; dup {
				return &Violation{Property: m.prop, Oracle: "each_change_stored_once", Class: "change_stored_twice",
					Detail: fmt.Sprintf("doc %d: change (%s, clientSeq %d) stored at serverSeq %d and %d", d, rankVV(rc, actor), ci.ClientSeq, prev, ci.ServerSeq), Step: rc.I}
			}
			seen[k] = ci.ServerSeq
			lastCSeq[actor] = ci.ClientSeq
		}
		if expect-1 != info.ServerSeq {
			return &Violation{Property: m.prop, Oracle: "log_gap_free", Class: "log_shorter_than_head",
				Detail: fmt.Sprintf("doc %d: head %d but %d rows", d, info.ServerSeq, expect-1), Step: rc.I}
		}
		rc.W.probe("log_shape_checked")
	}
	return nil
}

// ---------------------------------------------------------------------------

var dbModes = []string{"err_before", "err_after", "crash_before", "crash_after"}
var netKinds = []string{"drop_req", "drop_resp", "hold"}

func c05Config(r *rand.Rand) *RunConfig {
	cfg := &RunConfig{
		Clients:           2 + r.IntN(2),
		Docs:              1,
		Projects:          1,
		Steps:             15 + r.IntN(40),
		SnapshotThreshold: pickN(r, []int64{2, 5, 500, 1000}),
		SnapshotInterval:  pickN(r, []int64{2, 5, 500, 1000}),
		SnapshotCacheSize: 10,
		Kinds:             swarmKinds(r, []string{"obj", "text", "cnt", "arr"}, "create"),
		W:                 map[string]int{"update": 50, "sync": 40, "push_only": r.IntN(4), "bg": 3, "bgdrain": 2, "held": 3},
		Extra: map[string]int{
			"cons_pct":        60,
			"fault_at_sync":   1 + r.IntN(6), // which pushing sync gets the fault
			"fault_pos":       r.IntN(1 << 20),
			"retry_edits":     r.IntN(2),
			"retry_push_only": r.IntN(2), // the retry is a push-only sync (the SDK's realtime push-only mode)
			"c05":             1,
		},
	}
	applyKnownFindingSplits(r, cfg)
	return cfg
}

// c05Faulter places exactly one fault: at the chosen pushing sync, at a
// position enumerated over every storage call that request makes (learnt from
// the previous sync of this very run) x four modes, plus the network faults.
type c05Faulter struct {
	pushingSyncs int
	done         bool
}

func (f *c05Faulter) decorate(rc *RunCtx, s *session, st *Step) {
	if f.done || st.Op != "sync" || st.Flag == "push_only" {
		return
	}
	sd := rc.W.Client(st.C).Docs[0]
	if sd == nil || !sd.Doc.HasLocalChanges() {
		return
	}
	f.pushingSyncs++
	if f.pushingSyncs < rc.Cfg.Extra["fault_at_sync"] || len(s.syncCallNames) == 0 {
		return
	}
	f.done = true
	names := s.syncCallNames
	total := len(names)*len(dbModes) + len(netKinds)
	p := rc.Cfg.Extra["fault_pos"] % total
	if p >= len(names)*len(dbModes) {
		st.Net = netKinds[p-len(names)*len(dbModes)]
	} else {
		k := p / len(dbModes)
		nth := 0
		for _, n := range names[:k] {
			if n == names[k] {
				nth++
			}
		}
		mode := dbModes[p%len(dbModes)]
		st.DB = &DBFault{Call: -1, Method: names[k], Nth: nth, Mode: mode}
		// Tag faults that fall into the window "changes stored, client
		// checkpoint not yet stored" (finding push-checkpoint-atomicity): the
		// window is located in the call list learnt from this very run.
		create, update := -1, -1
		for i, n := range names {
			if n == "CreateChangeInfos" && create < 0 {
				create = i
			}
			if n == "UpdateClientInfoAfterPushPull" {
				update = i
			}
		}
		after := mode == "err_after" || mode == "crash_after"
		if create >= 0 && update > create {
			if (k > create && k < update) || (k == create && after) || (k == update && !after) {
				st.Flag = "dupwin"
			}
		}
	}
	rc.W.probe("c05_fault_placed")
	// the client retries the identical pack, optionally after further edits
	if rc.Cfg.Extra["retry_edits"] > 0 {
		e := consEdit(rc.G, st.C)
		s.queue = append(s.queue, Step{Op: "update", C: st.C, Edits: []Edit{e}})
	}
	retry := Step{Op: "sync", C: st.C}
	if rc.Cfg.Extra["retry_push_only"] > 0 {
		retry.Flag = "push_only"
	}
	s.queue = append(s.queue, retry)
}

func c05Monitors(rc *RunCtx) []Monitor {
	return []Monitor{
		&sessionTap{},
		&noFailMonitor{prop: "C05"},
		&cloneRootMonitor{prop: "C05"},
		newConservation("C05"),
		&logShapeMonitor{prop: "C05"},
		&convergenceMonitor{prop: "C05", server: true, midRun: false},
	}
}

func init() {
	Register(&Profile{Name: "c05_fault_sweep", Property: "C05", Config: c05Config, Next: SessionNext,
		Monitors: c05Monitors, Nontrivial: func(rc *RunCtx) bool {
			p := rc.W.Stats.Probes
			fired := false
			for k := range rc.W.Stats.Faults {
				if strings.HasPrefix(k, "db_") || strings.HasPrefix(k, "net_") {
					fired = true
				}
			}
			return fired && p["conservation_checked"] > 0 && p["final_replicas_compared"] > 0
		}})
}
