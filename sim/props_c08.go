package sim

import (
	"fmt"
	"math/rand/v2"

	"github.com/yorkie-team/yorkie/api/types"
	"github.com/yorkie-team/yorkie/pkg/attachable"
	"github.com/yorkie-team/yorkie/pkg/document"
)

// atomicUpdateMonitor: a failed Update leaves content, pending changes,
// checkpoint, version vector and undo history exactly as before.
type atomicUpdateMonitor struct {
	prop string
	pre  *docState
}

type docState struct {
	marshal  string
	changes  int
	lastCSeq uint32
	cp       string
	vv       string
	canUndo  bool
	canRedo  bool
	undoLen  int
	rootJSON string
}

func captureDoc(d *document.Document) *docState {
	pack := d.CreateChangePack()
	st := &docState{
		marshal: d.Marshal(), changes: len(pack.Changes), cp: d.Checkpoint().String(), vv: d.VersionVector().Marshal(),
		canUndo: d.CanUndo(), canRedo: d.CanRedo(), undoLen: d.UndoStackLenForTest(),
	}
	if n := len(pack.Changes); n > 0 {
		st.lastCSeq = pack.Changes[n-1].ClientSeq()
	}
	return st
}

func (m *atomicUpdateMonitor) BeforeStep(rc *RunCtx, i int, st *Step) {
	m.pre = nil
	if st.Op != "update" {
		return
	}
	sc := rc.W.Client(st.C)
	sd := sc.Docs[st.D]
	if sd == nil || sd.Doc.Status() == attachable.StatusRemoved {
		return
	}
	m.pre = captureDoc(sd.Doc)
}

func (m *atomicUpdateMonitor) AfterStep(rc *RunCtx, i int, st *Step, res *StepResult) *Violation {
	if st.Op != "update" || m.pre == nil {
		return nil
	}
	failed := res.Out == "err" || res.Out == "userpanic"
	if !failed {
		return nil
	}
	rc.W.probe("failed_update:" + failKind(st, res))
	sd := rc.W.Client(st.C).Docs[st.D]
	post := captureDoc(sd.Doc)
	diff := ""
	switch {
	case post.marshal != m.pre.marshal:
		diff = fmt.Sprintf("content: %s -> %s", clip(m.pre.marshal), clip(post.marshal))
	case post.changes != m.pre.changes || post.lastCSeq != m.pre.lastCSeq:
		diff = fmt.Sprintf("pending changes: %d (last cseq %d) -> %d (last cseq %d)", m.pre.changes, m.pre.lastCSeq, post.changes, post.lastCSeq)
	case post.cp != m.pre.cp:
		diff = "checkpoint: " + m.pre.cp + " -> " + post.cp
	case post.vv != m.pre.vv:
		diff = "version vector: " + rankVV(rc, m.pre.vv) + " -> " + rankVV(rc, post.vv)
	case post.canUndo != m.pre.canUndo || post.canRedo != m.pre.canRedo || post.undoLen != m.pre.undoLen:
		diff = fmt.Sprintf("undo history: undo=%v/%d redo=%v -> undo=%v/%d redo=%v", m.pre.canUndo, m.pre.undoLen, m.pre.canRedo, post.canUndo, post.undoLen, post.canRedo)
	}
	if diff != "" {
		return &Violation{Property: m.prop, Oracle: "failed_update_changes_nothing", Class: "failed_update_left_traces:" + failKind(st, res),
			Detail: fmt.Sprintf("client %d: Update failed (%s) but %s", st.C, res.Out, diff), Step: i}
	}
	// the copy handed to the next callback shows the pre-failure content
	if got := sd.Doc.Root().Marshal(); got != m.pre.marshal {
		return &Violation{Property: m.prop, Oracle: "clone_equals_root", Class: "clone_differs_from_root_after_failed_update:" + failKind(st, res),
			Detail: fmt.Sprintf("client %d: after failed Update Root()=%s, document=%s", st.C, clip(got), clip(m.pre.marshal)), Step: i}
	}
	return nil
}

func failKind(st *Step, res *StepResult) string {
	if st.Fail != nil {
		return st.Fail.Mode
	}
	if res.Err != nil {
		switch {
		case errorsIs(res.Err, document.ErrDocumentSizeExceedsLimit):
			return "size_limit"
		case errorsIs(res.Err, document.ErrSchemaValidationFailed):
			return "schema"
		}
	}
	return "other"
}

func (m *atomicUpdateMonitor) Final(rc *RunCtx) *Violation { return nil }

func c08Config(r *rand.Rand) *RunConfig {
	cfg := c01Config(false)(r)
	cfg.SnapshotThreshold = pickN(r, []int64{3, 10, 500})
	cfg.SnapshotInterval = pickN(r, []int64{3, 10, 500})
	cfg.Extra["fail_pct"] = 10 + r.IntN(25)
	if r.IntN(2) == 0 {
		cfg.Extra["size_limit"] = 300 + r.IntN(1500)
	}
	if r.IntN(2) == 0 {
		cfg.Extra["schema"] = 1
	}
	// undo/redo histories (and their clone == root check) are exercised by the
	// C14/C15 profiles, which own the undo-related findings
	return cfg
}

// c08Tap configures size limit and schema rules on freshly attached replicas
// (the SDK fields a project/schema would fill).
type c08Tap struct{}

func (c08Tap) AfterStep(rc *RunCtx, i int, st *Step, res *StepResult) *Violation {
	if st.Op != "attach" || res.Err != nil {
		return nil
	}
	sd := rc.W.Client(st.C).Docs[st.D]
	if sd == nil {
		return nil
	}
	if n := rc.Cfg.Extra["size_limit"]; n > 0 {
		sd.Doc.MaxSizeLimit = n
	}
	if rc.Cfg.Extra["schema"] > 0 {
		sd.Doc.SchemaRules = []types.Rule{{Path: "$.p0", Type: "string"}, {Path: "$.p1", Type: "integer"}}
	}
	return nil
}
func (c08Tap) Final(rc *RunCtx) *Violation { return nil }

func c08Monitors(rc *RunCtx) []Monitor {
	allow := func(rc *RunCtx, st *Step, res *StepResult) bool {
		// size limit and schema violations are legitimate refusals
		return st.Op == "update" && (errorsIs(res.Err, document.ErrDocumentSizeExceedsLimit) || errorsIs(res.Err, document.ErrSchemaValidationFailed))
	}
	return []Monitor{
		&sessionTap{}, c08Tap{},
		&noFailMonitor{prop: "C08", allow: allow},
		&atomicUpdateMonitor{prop: "C08"},
		&cloneRootMonitor{prop: "C08"},
		&convergenceMonitor{prop: "C08", server: false, midRun: false},
	}
}

func init() {
	Register(&Profile{Name: "c08_atomic_update", Property: "C08", Config: c08Config, Next: SessionNext,
		Monitors: c08Monitors, Nontrivial: func(rc *RunCtx) bool {
			p := rc.W.Stats.Probes
			n := 0
			for k, v := range p {
				if len(k) > 14 && k[:14] == "failed_update:" {
					n += v
				}
			}
			return n > 0 && p["edit_applied"] >= 2
		}})
}
