package sim

import (
	"context"
	"fmt"
	"math/rand/v2"

	"github.com/yorkie-team/yorkie/api/types"
	"github.com/yorkie-team/yorkie/server/backend/database"

	"github.com/yorkie-team/yorkie/pkg/attachable"
)

// C16 / C04 (parallel half): step-level engine. Clients are attached
// sequentially, edit locally, and then all of them talk to the server AT THE
// SAME TIME: syncs, push-only syncs, detach + re-attach, deactivation,
// unforced compaction attempts and the server's own background snapshot
// tasks interleave at every storage call and every named-lock operation.

type parState struct {
	queue   []Step
	started bool
	round   int
	rounds  int
}

func parSess(rc *RunCtx) *parState {
	s, _ := rc.State["par"].(*parState)
	if s == nil {
		s = &parState{}
		rc.State["par"] = s
	}
	return s
}

func parNext(rc *RunCtx) *Step {
	s := parSess(rc)
	cfg, r := rc.Cfg, rc.R
	if !s.started {
		s.started = true
		s.rounds = 1 + r.IntN(3)
		for _, c := range r.Perm(cfg.Clients) {
			s.queue = append(s.queue, Step{Op: "activate", C: c}, Step{Op: "attach", C: c, Opts: rc.attachOpts(c)})
		}
	}
	if len(s.queue) > 0 {
		st := s.queue[0]
		s.queue = s.queue[1:]
		return &st
	}
	if s.round >= s.rounds {
		return nil
	}
	s.round++
	// local edits first (sequential: the SDK's Document is single-threaded per client)
	var attached []int
	for c := 0; c < cfg.Clients; c++ {
		sc := rc.W.Client(c)
		sd := sc.Docs[0]
		if sd == nil || sd.Doc.Status() != attachable.StatusAttached || !sc.Cli.IsActive() {
			continue
		}
		if _, gone := rc.Excluded[c]; gone {
			continue // the server deactivated it on its own: whatever it still does is lost by design
		}
		attached = append(attached, c)
		n := r.IntN(3)
		root := sd.Doc.Root()
		for k := 0; k < n; k++ {
			st := Step{Op: "update", C: c}
			if cp := cfg.Extra["cons_pct"]; cp > 0 && r.IntN(100) < cp {
				st.Edits = append(st.Edits, consEdit(rc.G, c))
			} else if e := rc.G.GenEdit(c, root); e != nil {
				st.Edits = append(st.Edits, *e)
			}
			if len(st.Edits) > 0 {
				s.queue = append(s.queue, st)
			}
		}
	}
	// then everybody talks to the server at once
	par := Step{Op: "par", I: r.IntN(1 << 30)}
	deactivated := false
	for _, c := range attached {
		n := 1 + r.IntN(3)
		for k := 0; k < n; k++ {
			sub := Step{Op: "sync", C: c}
			if r.IntN(5) == 0 {
				sub.Flag = "push_only"
			}
			if r.IntN(100) < cfg.Extra["dup_pct"] {
				sub.Net = "dup" // the request is delivered twice, both copies in flight
			}
			par.Sub = append(par.Sub, sub)
		}
		switch x := r.IntN(100); {
		case x < cfg.Extra["reattach_pct"]:
			par.Sub = append(par.Sub, Step{Op: "detach", C: c}, Step{Op: "attach", C: c, Opts: rc.attachOpts(c)})
		case x < cfg.Extra["reattach_pct"]+cfg.Extra["deactivate_pct"] && !deactivated && len(attached) > 2:
			deactivated = true
			par.Sub = append(par.Sub, Step{Op: "deactivate", C: c})
		}
	}
	if r.IntN(100) < cfg.Extra["compact_pct"] {
		par.Sub = append(par.Sub, Step{Op: "admin", Flag: "compact"})
	}
	if r.IntN(100) < cfg.Extra["housekeeping_pct"] {
		// a long silence first, so that the housekeeping task finds live-but-silent
		// clients to deactivate while they are talking to the server again
		s.queue = append(s.queue, Step{Op: "sleep", Dur: "25h"})
		par.Sub = append(par.Sub, Step{Op: "housekeeping", Flag: "deactivate"})
	}
	if len(par.Sub) == 0 {
		return nil
	}
	s.queue = append(s.queue, par)
	st := s.queue[0]
	s.queue = s.queue[1:]
	return &st
}

func c16Config(r *rand.Rand) *RunConfig {
	cfg := &RunConfig{
		Clients: 2 + r.IntN(3), Docs: 1, Projects: 1, Steps: 60,
		SnapshotThreshold: pickN(r, []int64{2, 5, 500, 1000}), SnapshotInterval: pickN(r, []int64{1, 2, 5, 500}), SnapshotCacheSize: int(pickN(r, []int64{1, 10})),
		Kinds: swarmKinds(r, []string{"obj", "text", "cnt", "arr", "nest"}, "create"),
		Extra: map[string]int{"cons_pct": 50, "reattach_pct": 15 * r.IntN(2), "deactivate_pct": 15 * r.IntN(2), "compact_pct": 30 * r.IntN(2), "attach_presence": 50,
			"housekeeping_pct": 40 * r.IntN(2), "dup_pct": 25 * r.IntN(2), "crash_permille": 8 * r.IntN(2)},
		ClientDeactivateThreshold: "24h",
	}
	applyKnownFindingSplits(r, cfg)
	return cfg
}

// schedMonitor turns what the step-level scheduler saw into reach probes.
type schedMonitor struct{ prop string }

func (m *schedMonitor) AfterStep(rc *RunCtx, i int, st *Step, res *StepResult) *Violation {
	if st.Op != "par" && i < len(rc.Trace) && rc.Trace[i].Op == "par" && res.Err != nil && classify(res.Err) == "crash" {
		switch st.Op {
		case "attach", "detach", "deactivate":
			// a lifecycle call that was in flight when the server process died: the SDK and
			// the server may disagree about the attachment from now on; in the session
			// model the user reloads (the slot is out of the game, like after housekeeping)
			rc.Excluded[st.C] = "lifecycle call lost in a server crash"
			rc.W.probe("lifecycle_call_lost_in_crash")
		}
	}
	if st.Op == "par" && res.Out == "crashed" {
		// the server died in the middle of the housekeeping task's work: a client whose
		// document it had already detached (the deactivation itself did not get stored) is
		// on its way out exactly like one that was deactivated
		hk := false
		for _, sub := range st.Sub {
			if sub.Op == "housekeeping" {
				hk = true
			}
		}
		if hk {
			ctx := context.Background()
			for _, sc := range rc.W.Clients {
				if sc == nil || sc.Closed || !sc.Cli.IsActive() || sc.Docs[0] == nil || sc.Docs[0].Doc.Status() != attachable.StatusAttached {
					continue
				}
				info, err := rc.W.mem.FindClientInfoByRefKey(ctx, types.ClientRefKey{ProjectID: rc.W.Projects[sc.Proj].ID, ClientID: types.IDFromActorID(sc.Cli.ID())})
				if err != nil {
					continue
				}
				attachedOnServer := false
				for _, di := range info.Documents {
					if di.Status == database.DocumentAttached {
						attachedOnServer = true
					}
				}
				if !attachedOnServer {
					rc.Excluded[sc.Idx] = "detached by the housekeeping task before the server died"
					rc.W.probe("housekeeping_half_done_at_crash")
				}
			}
		}
	}
	if st.Op == "par" {
		rc.W.probe("parallel_section")
		rc.W.Stats.Probes["parallel_tasks"] += len(res.Sub)
		// the schedule is part of the event log: the determinism self-test compares it
		rc.log.add(fmt.Sprintf("    schedule: %v", rc.W.LastSchedTrace))
		for k := range res.Sub {
			rc.log.add(fmt.Sprintf("    sub %d %s -> %s", k, st.Sub[k].String(), describe(&res.Sub[k])))
		}
		if rc.W.PS != nil {
			rc.log.add("    pubsub history:" + psHistory(rc.W.PS.hist))
		}
	}
	return nil
}
func (m *schedMonitor) Final(rc *RunCtx) *Violation { return nil }

func c16Monitors(prop string) func(rc *RunCtx) []Monitor {
	return func(rc *RunCtx) []Monitor {
		return []Monitor{
			housekeepingTap{},
			&schedMonitor{prop: prop},
			&noFailMonitor{prop: prop},
			&cloneRootMonitor{prop: prop},
			newConservation(prop),
			&logShapeMonitor{prop: prop, perAttach: true},
			&convergenceMonitor{prop: prop, server: true, midRun: false},
		}
	}
}

// c04ParMonitors: the delivery oracle of C04 on the wire while requests run concurrently.
func c04ParMonitors(rc *RunCtx) []Monitor {
	dm := &deliveryMonitor{prop: "C04", rc: rc, own: map[string]map[int64]bool{}, ownSeq: map[string]map[int64]bool{}, last: map[string][2]int64{}, byActor: true}
	rc.W.wireTaps = append(rc.W.wireTaps, dm.tap)
	return []Monitor{
		housekeepingTap{},
		&schedMonitor{prop: "C04"},
		&noFailMonitor{prop: "C04"},
		dm,
		newConservation("C04"),
		&logShapeMonitor{prop: "C04", perAttach: true},
		&convergenceMonitor{prop: "C04", server: false, midRun: false},
	}
}

func c04ParConfig(r *rand.Rand) *RunConfig {
	cfg := c16Config(r)
	// deactivation (and the change the server makes on the client's behalf) belongs to C11/C16
	cfg.Extra["deactivate_pct"] = 0
	cfg.Extra["housekeeping_pct"] = 0
	cfg.Kinds["presence"] = 10 * r.IntN(3)
	return cfg
}

func init() {
	Register(&Profile{Name: "c04_parallel", Property: "C04", Config: c04ParConfig, Next: parNext, Monitors: c04ParMonitors,
		Nontrivial: func(rc *RunCtx) bool {
			p := rc.W.Stats.Probes
			return p["parallel_section"] > 0 && p["parallel_tasks"] >= 3 && p["delivery_checked"] >= 4 && p["log_shape_checked"] > 0
		}})
	Register(&Profile{Name: "c16_parallel", Property: "C16", Config: c16Config, Next: parNext, Monitors: c16Monitors("C16"),
		Nontrivial: func(rc *RunCtx) bool {
			p := rc.W.Stats.Probes
			return p["parallel_section"] > 0 && p["parallel_tasks"] >= 3 && p["sched_steps"] >= 20
		}})
}
