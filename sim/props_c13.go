package sim

import (
	"bytes"
	"context"
	"encoding/binary"
	"encoding/json"
	"fmt"
	"math/rand/v2"
	"net/http"
	"reflect"
	"regexp"
	"sort"
	"strings"
	gotime "time"
	"unsafe"

	memdb "github.com/hashicorp/go-memdb"
	"google.golang.org/protobuf/proto"
	"google.golang.org/protobuf/reflect/protoreflect"
	"google.golang.org/protobuf/types/dynamicpb"

	"github.com/yorkie-team/yorkie/api/converter"
	"github.com/yorkie-team/yorkie/api/types"
	api "github.com/yorkie-team/yorkie/api/yorkie/v1"
	"github.com/yorkie-team/yorkie/pkg/document"
	yjson "github.com/yorkie-team/yorkie/pkg/document/json"
	"github.com/yorkie-team/yorkie/pkg/document/presence"
	"github.com/yorkie-team/yorkie/pkg/document/time"
	"github.com/yorkie-team/yorkie/server/rpc/auth"
)

// C13: an intruder. Project 0 (the victim) runs an ordinary editing session
// with real clients; project 1 belongs to somebody else. Between the victim's
// steps the intruder calls procedures of the three services - the list is read
// from the generated service descriptors at run time, so a new procedure is
// included automatically - with requests built field by field from what it
// knows (it knows every id, key and name of the victim, but none of its
// credentials), under every credential it can present.
//
// Oracles, per call:
//   - the victim's stored state (every row of every memdb table that does not
//     belong to the intruder's own project or user) is byte-identical before
//     and after;
//   - a call that names something of the victim (or presents no valid
//     credential) is answered with an error whose code is not-found,
//     unauthenticated or permission-denied - failed-precondition and
//     invalid-argument are tolerated only when the same call with identifiers
//     that do not exist gets the same code;
//   - existence is not revealed: the same call with identifiers that do not
//     exist anywhere gets the same code;
//   - no response under the intruder's credentials carries content of the
//     victim's documents (marker strings);
//   - no handler panics, no stream is opened.

type procInfo struct {
	Service string
	Method  string
	In      protoreflect.MessageDescriptor
	Stream  bool
}

func allProcedures() []procInfo {
	var out []procInfo
	for _, fd := range []protoreflect.FileDescriptor{api.File_yorkie_v1_yorkie_proto, api.File_yorkie_v1_admin_proto, api.File_yorkie_v1_cluster_proto} {
		svcs := fd.Services()
		for i := 0; i < svcs.Len(); i++ {
			s := svcs.Get(i)
			ms := s.Methods()
			for j := 0; j < ms.Len(); j++ {
				m := ms.Get(j)
				out = append(out, procInfo{Service: string(s.FullName()), Method: string(m.Name()), In: m.Input(), Stream: m.IsStreamingServer() || m.IsStreamingClient()})
			}
		}
	}
	sort.Slice(out, func(i, j int) bool {
		if out[i].Service != out[j].Service {
			return out[i].Service < out[j].Service
		}
		return out[i].Method < out[j].Method
	})
	return out
}

// credential modes per service
var credModes = map[string][]string{
	"yorkie.v1.YorkieService":  {"none", "garbage", "intruder_key"},
	"yorkie.v1.AdminService":   {"none", "garbage", "intruder_token", "intruder_secret", "intruder_key_as_secret", "victim_key_as_secret", "victim_old_secret"},
	"yorkie.v1.ClusterService": {"none", "garbage"},
}

// identifier modes: what the request names
var idModes = []string{"victim", "own_client_victim_doc", "victim_client_own_doc", "own_client_own_doc"}

type intruderState struct {
	procs     []procInfo
	clientID  string // the intruder's own activated client (project 1)
	docID     string // the intruder's own document with the victim's key
	token     string // bearer token of the intruder's user
	ghostSeq  int
	last      *intrusion
	victimTok map[string]bool
	// the victim's own administration (key rotation)
	victimToken string
	oldSecret   string
}

type intrusion struct {
	Proc      procInfo
	Cred, IDs string
	Foreign   bool // the call names something of the victim or presents no valid credential
	Code      string
	GhostCode string
	Body      []byte
	Streamed  bool
	Skipped   string
}

func (w *World) intruder() *intruderState {
	if w.Intr == nil {
		w.Intr = &intruderState{procs: allProcedures(), victimTok: map[string]bool{}}
	}
	return w.Intr
}

// victimIDs reads what the intruder is assumed to know.
type knownIDs struct {
	projectID, projectName string
	clientID, clientKey    string
	docID, docKey          string
	revisionID             string
	username               string
}

func (w *World) victimKnown() knownIDs {
	ctx := context.Background()
	k := knownIDs{projectID: string(w.Projects[0].ID), projectName: w.Projects[0].Name, docKey: string(docKey(0)), username: "user0"}
	for _, sc := range w.Clients {
		if sc != nil && sc.Proj == 0 && sc.Cli.IsActive() {
			k.clientID = sc.Cli.ID().String()
			k.clientKey = sc.Key
			break
		}
	}
	if info, err := w.mem.FindDocInfoByKey(ctx, w.Projects[0].ID, docKey(0)); err == nil && info != nil {
		k.docID = string(info.ID)
		if revs, err := w.mem.FindRevisionInfosByPaging(ctx, info.RefKey(), types.Paging[int]{PageSize: 1}, false); err == nil && len(revs) > 0 {
			k.revisionID = string(revs[0].ID)
		}
	}
	return k
}

func ghostID(n int) string { return fmt.Sprintf("%024x", 0x7fff00000000+n) }

// buildRequest fills the request message of a procedure by field name.
func (w *World) buildIntrusion(p procInfo, ids string, k knownIDs, ghost bool) proto.Message {
	in := w.intruder()
	msg := dynamicpb.NewMessage(p.In)
	clientID, docID, docKeyS, projectID, projectName, revisionID, username := k.clientID, k.docID, k.docKey, k.projectID, k.projectName, k.revisionID, k.username
	switch ids {
	case "own_client_victim_doc":
		clientID = in.clientID
	case "victim_client_own_doc":
		docID = in.docID
	case "own_client_own_doc":
		// only what hangs below the document (a revision id) is the victim's
		clientID, docID = in.clientID, in.docID
	}
	if ghost {
		// the same call, naming things that exist nowhere
		in.ghostSeq++
		g := in.ghostSeq * 8
		if ids != "own_client_victim_doc" && ids != "own_client_own_doc" {
			clientID = ghostID(g)
		}
		if ids != "victim_client_own_doc" && ids != "own_client_own_doc" {
			docID = ghostID(g + 1)
			docKeyS = fmt.Sprintf("ghost-doc-%d", g)
		}
		projectID = ghostID(g + 2)
		projectName = fmt.Sprintf("ghost-project-%d", g)
		revisionID = ghostID(g + 3)
		if p.Method == "RemoveMember" || p.Method == "UpdateMemberRole" {
			username = fmt.Sprintf("ghost-user-%d", g)
		}
	}
	if clientID == "" {
		clientID = ghostID(1)
	}
	if docID == "" {
		docID = ghostID(2)
	}
	if revisionID == "" {
		revisionID = ghostID(3)
	}
	pack := func() *api.ChangePack {
		d := document.New(docKey(0))
		if a, err := time.ActorIDFromHex(clientID); err == nil {
			d.SetActor(a)
		}
		_ = d.Update(func(r *yjson.Object, pr *presence.Presence) error {
			r.SetString("intruder", "intruder-was-here")
			return nil
		})
		cp := d.CreateChangePack()
		pb, err := converter.ToChangePack(cp)
		if err != nil {
			panic(err)
		}
		pb.DocumentKey = docKeyS
		return pb
	}
	fs := p.In.Fields()
	for i := 0; i < fs.Len(); i++ {
		f := fs.Get(i)
		name := string(f.Name())
		setS := func(s string) {
			if f.Kind() == protoreflect.StringKind && !f.IsList() {
				msg.Set(f, protoreflect.ValueOfString(s))
			}
		}
		switch {
		case name == "client_id":
			setS(clientID)
		case name == "client_key":
			setS("intruder-client-key")
		case name == "document_id":
			setS(docID)
		case name == "document_key":
			setS(docKeyS)
		case name == "document_keys" && f.IsList():
			msg.Mutable(f).List().Append(protoreflect.ValueOfString(docKeyS))
		case name == "project_id" || (name == "id" && p.Service == "yorkie.v1.AdminService"):
			setS(projectID)
		case name == "project_name" || (name == "name" && p.Method == "GetProject"):
			setS(projectName)
		case name == "name":
			setS(fmt.Sprintf("intruder-made-%d", in.ghostSeq))
		case name == "revision_id":
			setS(revisionID)
		case name == "username":
			setS(username)
		case name == "password" || name == "current_password":
			setS("wrong-password-1A!")
		case name == "new_password":
			setS("Another-pass-2B!")
		case name == "channel_key":
			setS("room-1")
		case name == "session_id":
			setS(ghostID(4))
		case name == "topic":
			setS("t")
		case name == "query":
			setS("doc")
		case name == "label":
			setS("by-intruder")
		case name == "role":
			setS("admin")
		case name == "token":
			setS("no-such-invite-token")
		case name == "schema_name":
			setS("s1")
		case name == "root" || name == "initial_root":
			setS(`{"intruder":"intruder-was-here"}`)
		case name == "key":
			setS(projectID)
		case name == "page_size" || name == "limit":
			msg.Set(f, protoreflect.ValueOfInt32(10))
		case name == "schema_version" || name == "version":
			msg.Set(f, protoreflect.ValueOfInt32(1))
		case name == "force" || name == "include_root" || name == "include_presences" || name == "synchronous" || name == "is_forward":
			msg.Set(f, protoreflect.ValueOfBool(true))
		case name == "change_pack":
			b, _ := proto.Marshal(pack())
			sub := dynamicpb.NewMessage(f.Message())
			_ = proto.Unmarshal(b, sub)
			msg.Set(f, protoreflect.ValueOfMessage(sub))
		case name == "project" && f.Message() != nil:
			// cluster calls carry the whole project
			var pr *types.Project
			if ghost {
				cp := *w.Projects[0]
				cp.ID = types.ID(projectID)
				cp.Name = projectName
				pr = &cp
			} else {
				pr = w.Projects[0]
			}
			b, _ := proto.Marshal(converter.ToProject(pr))
			sub := dynamicpb.NewMessage(f.Message())
			_ = proto.Unmarshal(b, sub)
			msg.Set(f, protoreflect.ValueOfMessage(sub))
		case name == "resources" && f.IsList():
			el := dynamicpb.NewMessage(f.Message())
			rf := f.Message().Fields()
			for j := 0; j < rf.Len(); j++ {
				x := rf.Get(j)
				if x.Kind() == protoreflect.StringKind && !x.IsList() {
					v := docKeyS
					if strings.Contains(string(x.Name()), "id") {
						v = docID
					}
					el.Set(x, protoreflect.ValueOfString(v))
				}
			}
			msg.Mutable(f).List().Append(protoreflect.ValueOfMessage(el))
		case name == "fields" && f.Message() != nil:
			sub := dynamicpb.NewMessage(f.Message())
			msg.Set(f, protoreflect.ValueOfMessage(sub))
		}
	}
	return msg
}

// namesVictim says whether the request carries an identifier of the victim that is an
// identifier (not a mere key or name that every project may use for itself).
func namesVictim(p procInfo, ids string) bool {
	fs := p.In.Fields()
	for i := 0; i < fs.Len(); i++ {
		switch string(fs.Get(i).Name()) {
		case "document_id":
			// a foreign client id next to a document of the caller's own project names
			// nothing of the victim that could be read or changed; a foreign document does
			if ids != "victim_client_own_doc" && ids != "own_client_own_doc" {
				return true
			}
		case "client_id":
			if ids == "victim" && fs.ByName("document_id") == nil && fs.ByName("change_pack") == nil && fs.ByName("resources") == nil && fs.ByName("channel_key") == nil {
				return true // the call is about the client itself (DeactivateClient)
			}
		case "project_id", "project_name", "project", "revision_id":
			return true
		case "id", "name":
			if p.Service == "yorkie.v1.AdminService" && (p.Method == "UpdateProject" || p.Method == "RotateProjectKeys" || p.Method == "GetProject") {
				return true
			}
		case "username":
			if p.Method != "SignUp" && p.Method != "LogIn" {
				return true
			}
		}
	}
	return false
}

func (w *World) intruderHeaders(service, cred string) http.Header {
	in := w.intruder()
	h := http.Header{}
	h.Set("Connect-Protocol-Version", "1")
	switch cred {
	case "none":
	case "garbage":
		h.Set(types.APIKeyKey, "no-such-api-key")
		h.Set(types.AuthorizationKey, "Bearer not.a.token")
		h.Set("x-cluster-secret", "wrong-secret")
	case "intruder_key":
		h.Set(types.APIKeyKey, w.Projects[1].PublicKey)
	case "intruder_token":
		h.Set(types.AuthorizationKey, "Bearer "+in.token)
	case "intruder_secret":
		h.Set(types.AuthorizationKey, "API-Key "+w.Projects[1].SecretKey)
	case "intruder_key_as_secret":
		h.Set(types.AuthorizationKey, "API-Key "+w.Projects[1].PublicKey)
	case "victim_key_as_secret":
		// the victim's PUBLIC key is public knowledge (it ships inside browser SDKs)
		h.Set(types.AuthorizationKey, "API-Key "+w.Projects[0].PublicKey)
	case "victim_old_secret":
		// a secret key that was rotated away (leaked, hence rotated) must be worthless
		if in.oldSecret != "" {
			h.Set(types.AuthorizationKey, "API-Key "+in.oldSecret)
		} else {
			h.Set(types.AuthorizationKey, "API-Key never-was-a-key")
		}
	case "victim_token":
		h.Set(types.AuthorizationKey, "Bearer "+in.victimToken)
	}
	return h
}

var connectCodeRe = regexp.MustCompile(`"code"\s*:\s*"([a-z_]+)"`)

// call sends one request the way a Connect client would and returns the code
// ("ok" for success), the raw response body and whether a stream was opened.
func (w *World) intruderCall(p procInfo, hdr http.Header, msg proto.Message) (code string, body []byte, streamed bool) {
	b, err := proto.Marshal(msg)
	if err != nil {
		panic(err)
	}
	url := "http://sim.invalid:1/" + p.Service + "/" + p.Method
	ctx, cancel := context.WithTimeout(w.ctx, 3*gotime.Second)
	defer cancel()
	ctx = context.WithValue(ctx, taskKey, w.nextFGTask())
	if p.Stream {
		hdr.Set("Content-Type", "application/connect+proto")
		env := make([]byte, 5+len(b))
		binary.BigEndian.PutUint32(env[1:5], uint32(len(b)))
		copy(env[5:], b)
		b = env
	} else {
		hdr.Set("Content-Type", "application/proto")
	}
	var resp *http.Response
	var rb []byte
	var derr error
	var panicked any
	if w.RunFG(func() {
		// net/http recovers a panicking handler and drops the connection; so does this
		defer func() {
			if r := recover(); r != nil {
				if _, crash := r.(crashPanic); crash {
					panic(r)
				}
				panicked = r
			}
		}()
		resp, rb, derr = w.deliver(ctx, "POST", url, hdr, b)
	}) {
		return "hang", nil, false
	}
	if panicked != nil {
		return "handler_panic:" + normErr(fmt.Sprint(panicked)), nil, false
	}
	if derr != nil {
		return "transport:" + classify(derr), nil, false
	}
	if p.Stream {
		// enveloped messages; the last one (flag 0x02) carries the error, if any
		data := 0
		for len(rb) >= 5 {
			flag := rb[0]
			n := int(binary.BigEndian.Uint32(rb[1:5]))
			if 5+n > len(rb) {
				break
			}
			payload := rb[5 : 5+n]
			rb = rb[5+n:]
			if flag&0x02 != 0 {
				if m := connectCodeRe.FindSubmatch(payload); m != nil {
					return string(m[1]), payload, data > 0
				}
				return "ok", payload, data > 0
			}
			data++
			body = append(body, payload...)
		}
		if resp.StatusCode != 200 {
			if m := connectCodeRe.FindSubmatch(rb); m != nil {
				return string(m[1]), rb, false
			}
			return fmt.Sprintf("http_%d", resp.StatusCode), rb, false
		}
		return "ok", body, data > 0
	}
	if resp.StatusCode == 200 {
		return "ok", rb, false
	}
	if m := connectCodeRe.FindSubmatch(rb); m != nil {
		return string(m[1]), rb, false
	}
	return fmt.Sprintf("http_%d", resp.StatusCode), rb, false
}

// intruderSetup gives the intruder a user, a token, a client and a document of
// its own (same document key as the victim's).
func (w *World) intruderSetup() {
	in := w.intruder()
	if in.token == "" {
		tm := auth.NewTokenManager(w.gen.be.Config.SecretKey, 1000*gotime.Hour)
		tok, err := tm.Generate("user1")
		if err != nil {
			panic(err)
		}
		in.token = tok
	}
	if in.clientID != "" {
		return
	}
	procs := map[string]procInfo{}
	for _, p := range in.procs {
		procs[p.Method+"@"+p.Service] = p
	}
	act := procs["ActivateClient@yorkie.v1.YorkieService"]
	m := dynamicpb.NewMessage(act.In)
	m.Set(act.In.Fields().ByName("client_key"), protoreflect.ValueOfString("intruder-client"))
	code, body, _ := w.intruderCall(act, w.intruderHeaders(act.Service, "intruder_key"), m)
	if code != "ok" {
		panic("intruder cannot activate its own client: " + code)
	}
	var ar api.ActivateClientResponse
	if err := proto.Unmarshal(body, &ar); err != nil {
		panic(err)
	}
	in.clientID = ar.ClientId
	att := procs["AttachDocument@yorkie.v1.YorkieService"]
	k := knownIDs{clientID: in.clientID, docKey: string(docKey(0))}
	am := w.buildIntrusion(att, "victim", k, false)
	code, body, _ = w.intruderCall(att, w.intruderHeaders(att.Service, "intruder_key"), am)
	if code != "ok" {
		panic("intruder cannot attach its own document: " + code + " " + string(body))
	}
	var dr api.AttachDocumentResponse
	if err := proto.Unmarshal(body, &dr); err != nil {
		panic(err)
	}
	in.docID = dr.DocumentId
}

// execIntrude performs one intrusion: the call itself and its twin that names
// things which exist nowhere.
func (w *World) execIntrude(st *Step) (res StepResult) {
	in := w.intruder()
	w.intruderSetup()
	p := in.procs[mod(st.I, len(in.procs))]
	modes := credModes[p.Service]
	cred := modes[mod(st.J, len(modes))]
	ids := idModes[mod(st.D, len(idModes))]
	k := w.victimKnown()
	if p.Service == "yorkie.v1.AdminService" && w.Cfg.Extra["wrong_kind"] == 0 {
		// a credential of the wrong KIND (user token on a project-scoped procedure, project
		// secret on a user-scoped one) is a finding of its own; most runs present the
		// kind the handler reads (table generated from the tree's admin_server.go)
		switch need := adminNeeds[p.Method]; {
		case cred == "intruder_token" && need == "project":
			cred = "intruder_secret"
		case cred == "intruder_secret" && need == "user":
			cred = "intruder_token"
		}
	}
	it := &intrusion{Proc: p, Cred: cred, IDs: ids}
	in.last = it
	validCred := cred == "intruder_key" || cred == "intruder_token" || cred == "intruder_secret"
	if cred == "victim_key_as_secret" || cred == "victim_old_secret" {
		// whatever these name, they would act on the VICTIM's project
		it.Foreign = true
	}
	if p.Service == "yorkie.v1.AdminService" && (p.Method == "SignUp" || p.Method == "LogIn" || p.Method == "ChangePassword" || p.Method == "DeleteAccount") {
		// password-authenticated: the wrong password is the missing credential
		it.Foreign = p.Method != "SignUp"
		if p.Method == "SignUp" {
			it.Skipped = "bcrypt" // creating accounts is open to everybody and costs 70 ms of real time
			res.Out = "skip"
			return res
		}
	} else {
		it.Foreign = it.Foreign || !validCred || namesVictim(p, ids)
	}
	it.Code, it.Body, it.Streamed = w.intruderCall(p, w.intruderHeaders(p.Service, cred), w.buildIntrusion(p, ids, k, false))
	if it.Foreign {
		it.GhostCode, _, _ = w.intruderCall(p, w.intruderHeaders(p.Service, cred), w.buildIntrusion(p, ids, k, true))
	}
	res.Out = fmt.Sprintf("%s/%s cred=%s ids=%s foreign=%v -> %s (ghost %s)", p.Service[len("yorkie.v1."):], p.Method, cred, ids, it.Foreign, it.Code, it.GhostCode)
	return res
}

// execRotate: the victim's owner rotates the project keys through the real AdminService.
func (w *World) execRotate(st *Step) (res StepResult) {
	in := w.intruder()
	w.intruderSetup()
	if in.victimToken == "" {
		tm := auth.NewTokenManager(w.gen.be.Config.SecretKey, 1000*gotime.Hour)
		tok, err := tm.Generate("user0")
		if err != nil {
			panic(err)
		}
		in.victimToken = tok
	}
	var p procInfo
	for _, x := range in.procs {
		if x.Service == "yorkie.v1.AdminService" && x.Method == "RotateProjectKeys" {
			p = x
		}
	}
	m := dynamicpb.NewMessage(p.In)
	m.Set(p.In.Fields().ByName("id"), protoreflect.ValueOfString(string(w.Projects[0].ID)))
	old := w.Projects[0].SecretKey
	code, _, _ := w.intruderCall(p, w.intruderHeaders(p.Service, "victim_token"), m)
	res.Out = "rotate:" + code
	if code == "ok" {
		in.oldSecret = old
		info, err := w.mem.FindProjectInfoByID(context.Background(), w.Projects[0].ID)
		if err != nil {
			panic(err)
		}
		w.Projects[0] = info.ToProject()
		w.probe("victim_rotated_keys")
	}
	return res
}

// ---------------------------------------------------------------------------
// the victim's stored state

func (w *World) rawMemDB() *memdb.MemDB {
	v := reflect.ValueOf(w.mem).Elem().FieldByName("db")
	return *(**memdb.MemDB)(unsafe.Pointer(v.UnsafeAddr()))
}

func memdbTables(db *memdb.MemDB) []string {
	v := reflect.ValueOf(db).Elem().FieldByName("schema")
	schema := *(**memdb.DBSchema)(unsafe.Pointer(v.UnsafeAddr()))
	var names []string
	for n := range schema.Tables {
		names = append(names, n)
	}
	sort.Strings(names)
	return names
}

// victimState dumps every stored row that is not the intruder's own: not of a project
// the intruder's user owns, not of a client or document of such a project.
func (w *World) victimState() map[string]string {
	db := w.rawMemDB()
	txn := db.Txn(false)
	defer txn.Abort()
	ownUser := string(w.Projects[1].Owner)
	own := map[string]bool{ownUser: true, string(w.Projects[1].ID): true}
	field := func(rv reflect.Value, name string) string {
		if f := rv.FieldByName(name); f.IsValid() {
			return fmt.Sprint(f.Interface())
		}
		return ""
	}
	rows := map[string][]any{}
	tables := memdbTables(db)
	for _, tbl := range tables {
		it, err := txn.Get(tbl, "id")
		if err != nil {
			continue
		}
		for raw := it.Next(); raw != nil; raw = it.Next() {
			rows[tbl] = append(rows[tbl], raw)
		}
	}
	deref := func(raw any) reflect.Value {
		rv := reflect.ValueOf(raw)
		for rv.Kind() == reflect.Ptr {
			rv = rv.Elem()
		}
		return rv
	}
	// what belongs to the intruder: its projects, then their clients and documents
	for pass := 0; pass < 3; pass++ {
		for _, tbl := range tables {
			for _, raw := range rows[tbl] {
				rv := deref(raw)
				if rv.Kind() != reflect.Struct {
					continue
				}
				if own[field(rv, "Owner")] || own[field(rv, "ProjectID")] {
					own[field(rv, "ID")] = true
				}
			}
		}
	}
	out := map[string]string{}
	for _, tbl := range tables {
		var sb strings.Builder
		for _, raw := range rows[tbl] {
			rv := deref(raw)
			if rv.Kind() == reflect.Struct {
				if own[field(rv, "ID")] || own[field(rv, "ProjectID")] || own[field(rv, "DocID")] || own[field(rv, "ClientID")] || own[field(rv, "Owner")] || own[field(rv, "UserID")] {
					continue
				}
			}
			b, err := json.Marshal(raw)
			if err != nil {
				b = []byte(fmt.Sprintf("%+v", raw))
			}
			sb.Write(b)
			sb.WriteByte('\n')
		}
		out[tbl] = sb.String()
	}
	return out
}

// ---------------------------------------------------------------------------

type intruderMonitor struct {
	prop   string
	before map[string]string
}

var strictCodes = map[string]bool{"not_found": true, "unauthenticated": true, "permission_denied": true}
var tolerated = map[string]bool{"failed_precondition": true, "invalid_argument": true}

func (m *intruderMonitor) BeforeStep(rc *RunCtx, i int, st *Step) {
	if st.Op == "intrude" {
		rc.W.intruderSetup()
		// nothing of the victim's own background work (snapshot writer) may be pending
		// while the before/after comparison is made
		rc.W.DrainBackground()
		m.before = rc.W.victimState()
		// what the victim's documents contain right now must never show up in an answer
		in := rc.W.intruder()
		for _, sc := range rc.W.Clients {
			if sc == nil || sc.Proj != 0 {
				continue
			}
			for _, sd := range sc.Docs {
				for _, tok := range markerRe.FindAllString(sd.Doc.Marshal(), -1) {
					in.victimTok[tok] = true
				}
			}
		}
	}
}

var markerRe = regexp.MustCompile(`c\d+v\d+`)

func (m *intruderMonitor) AfterStep(rc *RunCtx, i int, st *Step, res *StepResult) *Violation {
	if st.Op != "intrude" {
		return nil
	}
	w := rc.W
	it := w.intruder().last
	if it == nil || it.Skipped != "" {
		return nil
	}
	name := it.Proc.Service[len("yorkie.v1."):] + "/" + it.Proc.Method
	bad := func(oracle, class, detail string) *Violation {
		return &Violation{Property: m.prop, Oracle: oracle, Class: class + ":" + name, Detail: fmt.Sprintf("%s with credential %q, identifiers %q: %s", name, it.Cred, it.IDs, detail), Step: i}
	}
	w.probe("intrusion")
	if strings.HasPrefix(it.Code, "handler_panic:") {
		return bad("handler_does_not_panic", "handler_panicked:"+strings.TrimPrefix(it.Code, "handler_panic:"), "the handler panicked (the HTTP server drops the connection): "+it.Code)
	}
	w.Stats.Probes["intrusion_code:"+it.Code]++
	after := w.victimState()
	for tbl, b := range m.before {
		if after[tbl] != b {
			return bad("victim_state_unchanged", "victim_state_changed:"+tbl, fmt.Sprintf("answered %s; table %s of the victim changed:\n  before: %s\n  after:  %s", it.Code, tbl, clip(diffLines(b, after[tbl], true)), clip(diffLines(b, after[tbl], false))))
		}
	}
	w.probe("victim_state_compared")
	if it.Streamed && it.Foreign {
		return bad("no_stream_for_intruder", "stream_opened", "a stream was opened and delivered data")
	}
	if it.Code == "hang" {
		return bad("intruder_call_returns", "call_hangs", "the call did not return")
	}
	// content of the victim's documents in an answer given to the intruder
	for tok := range w.intruder().victimTok {
		if bytes.Contains(it.Body, []byte(tok)) {
			return bad("no_content_leak", "victim_content_in_response", fmt.Sprintf("answered %s and the response carries %q, a value of the victim's document", it.Code, tok))
		}
	}
	if !it.Foreign {
		w.Stats.Probes["own_namespace_call:"+it.Code]++
		return nil
	}
	w.probe("foreign_call_judged")
	if it.Code == "ok" {
		return bad("foreign_call_refused", "foreign_call_accepted", "the call succeeded")
	}
	if it.Code != it.GhostCode {
		return bad("existence_not_revealed", "answer_differs_from_nonexistent:"+it.Code+"_vs_"+it.GhostCode,
			fmt.Sprintf("answered %s, but %s when the same call names things that exist nowhere", it.Code, it.GhostCode))
	}
	if !strictCodes[it.Code] && !tolerated[it.Code] {
		return bad("foreign_call_refused", "foreign_call_refused_with:"+it.Code, "answered "+it.Code)
	}
	return nil
}

func (m *intruderMonitor) Final(rc *RunCtx) *Violation { return nil }

func diffLines(a, b string, first bool) string {
	as, bs := strings.Split(a, "\n"), strings.Split(b, "\n")
	in := map[string]bool{}
	src, other := as, bs
	if !first {
		src, other = bs, as
	}
	for _, l := range other {
		in[l] = true
	}
	var out []string
	for _, l := range src {
		if !in[l] {
			out = append(out, l)
		}
	}
	return strings.Join(out, " | ")
}

func c13Config(r *rand.Rand) *RunConfig {
	cfg := c01Config(false)(r)
	cfg.Projects = 2
	cfg.Clients = 2 + r.IntN(2)
	cfg.Steps = 30 + r.IntN(60)
	cfg.SnapshotThreshold = pickN(r, []int64{3, 10, 500})
	cfg.SnapshotInterval = pickN(r, []int64{3, 10, 500})
	cfg.AutoRevision = r.IntN(2) == 0
	cfg.Extra["intrude_pct"] = 30 + r.IntN(40)
	cfg.Extra["users"] = 1
	cfg.Extra["shard_collide"] = r.IntN(2) // the two projects' documents share a cache shard (and evict each other) or not
	if r.IntN(10) == 0 {
		cfg.Extra["wrong_kind"] = 1
	}
	delete(cfg.W, "rejoin")
	delete(cfg.W, "vanish")
	return cfg
}

func c13Next(rc *RunCtx) *Step {
	s := rc.sess()
	// intrusions come between the victim's steps, once its session is under way
	if len(s.queue) == 0 && rc.I > 6 && rc.R.IntN(100) < rc.Cfg.Extra["intrude_pct"] && rc.I < rc.Cfg.Steps {
		n := len(rc.W.intruder().procs)
		return &Step{Op: "intrude", I: rc.R.IntN(n), J: rc.R.IntN(16), D: rc.R.IntN(len(idModes))}
	}
	return SessionNext(rc)
}

// c13_keys: no editing session; the victim's owner rotates the project keys now and
// then, the intruder tries every credential (among them the victim's public key as a
// secret, and the secret that was rotated away).
func c13KeysNext(rc *RunCtx) *Step {
	if rc.I >= rc.Cfg.Steps {
		return nil
	}
	if rc.R.IntN(100) < 15 {
		return &Step{Op: "rotate"}
	}
	n := len(rc.W.intruder().procs)
	return &Step{Op: "intrude", I: rc.R.IntN(n), J: rc.R.IntN(16), D: rc.R.IntN(len(idModes))}
}

func init() {
	Register(&Profile{Name: "c13_keys", Property: "C13", NoQuiesce: true,
		Config: func(r *rand.Rand) *RunConfig {
			return &RunConfig{Clients: 0, Docs: 1, Projects: 2, Steps: 10 + r.IntN(30), SnapshotThreshold: 500, SnapshotInterval: 500, SnapshotCacheSize: 10,
				Extra: map[string]int{"users": 1}}
		},
		Next:     c13KeysNext,
		Monitors: func(rc *RunCtx) []Monitor { return []Monitor{&intruderMonitor{prop: "C13"}} },
		Nontrivial: func(rc *RunCtx) bool {
			p := rc.W.Stats.Probes
			return p["foreign_call_judged"] >= 3 && p["victim_rotated_keys"] >= 1
		}})
	Register(&Profile{Name: "c13_intruder", Property: "C13", Config: c13Config, Next: c13Next,
		Monitors: func(rc *RunCtx) []Monitor {
			return append([]Monitor{&intruderMonitor{prop: "C13"}}, sessionMonitors("C13", true)(rc)...)
		},
		Nontrivial: func(rc *RunCtx) bool {
			p := rc.W.Stats.Probes
			return p["foreign_call_judged"] >= 3 && p["victim_state_compared"] >= 3 && p["edit_applied"] >= 2
		}})
}
