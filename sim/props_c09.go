package sim

import (
	"context"
	"fmt"
	"math/rand/v2"
	"reflect"
	"runtime/debug"
	"sort"
	"strings"
	"unsafe"

	memdb "github.com/hashicorp/go-memdb"
	"google.golang.org/protobuf/proto"
	"google.golang.org/protobuf/reflect/protoreflect"

	"github.com/yorkie-team/yorkie/api/converter"
	api "github.com/yorkie-team/yorkie/api/yorkie/v1"
	"github.com/yorkie-team/yorkie/pkg/document"
	"github.com/yorkie-team/yorkie/pkg/document/change"
	"github.com/yorkie-team/yorkie/pkg/document/crdt"
	"github.com/yorkie-team/yorkie/pkg/document/time"
	"github.com/yorkie-team/yorkie/server/backend/database"
)

// C09. Two halves, two families of profiles.
//
// LOSSLESS (c09_lossless*): C01-style sessions; every pack that crosses the
// simulated wire is decoded and re-encoded and must come out equal; every
// change the server stored must decode to the change that was pushed; at sync
// points every replica's document goes through the snapshot encoding and the
// result must have the same content, the same garbage count and the same
// LOGICAL STRUCTURE (every node of every text / tree / array / object with
// its identity, tombstone ticket, insertion links, attribute history - read
// by reflection, so a field added tomorrow is compared as well), and must
// take the same later changes to the same result.
//
// HOSTILE (c09_hostile): the same sessions with a fault kind of its own:
// corruption. Request bodies, response bodies and stored bytes (snapshots,
// operations) are mutated - byte level (flip, truncate, splice) and structure
// level (a populated field of the decoded protobuf, at any depth, also inside
// nested element encodings, is cleared, zeroed, duplicated or truncated) - and
// so are real encodings handed directly to the decoders. Whatever happens
// afterwards may fail, but nothing may panic (also not later, when the server
// applies a stored change while building a snapshot) and nothing may hang.

// ---------------------------------------------------------------------------
// logical structure by reflection

func unexport(v reflect.Value) reflect.Value {
	if v.CanInterface() || !v.CanAddr() {
		return v
	}
	return reflect.NewAt(v.Type(), unsafe.Pointer(v.UnsafeAddr())).Elem()
}

func isIndexType(t reflect.Type) bool {
	s := t.String()
	return strings.Contains(s, "splay.") || strings.Contains(s, "llrb.") || strings.Contains(s, "index.") || strings.Contains(s, "treelist.")
}

func nodeIdentity(v reflect.Value) (string, bool) {
	// pointers to other nodes are shown by identity, never followed
	if v.Kind() != reflect.Ptr || v.IsNil() {
		return "", false
	}
	name := v.Type().Elem().Name()
	if !(strings.HasPrefix(name, "RGATreeSplitNode[") || name == "TreeNode" || name == "RGATreeListNode" || name == "ElementRHTNode" || name == "ElementEntry") {
		return "", false
	}
	e := v.Elem()
	for _, fn := range []string{"id", "elem", "createdAt"} {
		if f := e.FieldByName(fn); f.IsValid() {
			return "->" + logical(unexport(addressable(e).FieldByName(fn)), 3), true
		}
	}
	return "->?", true
}

func addressable(v reflect.Value) reflect.Value {
	if v.CanAddr() {
		return v
	}
	c := reflect.New(v.Type()).Elem()
	c.Set(v)
	return c
}

// logical renders the logical content of a CRDT value: every field except
// index structures and caches, maps sorted, other nodes by identity.
func logical(v reflect.Value, depth int) string {
	if depth > 6 {
		return "…"
	}
	if !v.IsValid() {
		return "nil"
	}
	if v.CanInterface() {
		switch x := v.Interface().(type) {
		case *time.Ticket:
			if x == nil {
				return "nil"
			}
			return x.Key()
		case *crdt.RHT:
			if x == nil {
				return "{}" // no attributes: nil and empty are the same thing
			}
			var parts []string
			for _, n := range x.Nodes() {
				parts = append(parts, fmt.Sprintf("%s=%q@%s rm=%v", n.Key(), n.Value(), logical(reflect.ValueOf(n.UpdatedAt()), depth+1), n.IsRemoved()))
			}
			sort.Strings(parts)
			return "{" + strings.Join(parts, ",") + "}"
		case crdt.Element:
			if x == nil || (v.Kind() == reflect.Ptr && v.IsNil()) {
				return "nil"
			}
			return "elem:" + x.CreatedAt().Key()
		}
	}
	switch v.Kind() {
	case reflect.Ptr, reflect.Interface:
		if v.IsNil() {
			return "nil"
		}
		if s, ok := nodeIdentity(v); ok && depth > 0 {
			return s
		}
		return logical(v.Elem(), depth+1)
	case reflect.Struct:
		var parts []string
		av := addressable(v)
		for i := 0; i < av.NumField(); i++ {
			ft := av.Type().Field(i)
			if isIndexType(ft.Type) || ft.Name == "mergedInto" || ft.Name == "prev" || ft.Name == "next" || strings.HasPrefix(ft.Name, "cached") {
				continue // index structures, runtime caches, list links (the order is shown by the walk)
			}
			parts = append(parts, ft.Name+"="+logical(unexport(av.Field(i)), depth+1))
		}
		return "{" + strings.Join(parts, " ") + "}"
	case reflect.Map:
		var parts []string
		for _, k := range v.MapKeys() {
			parts = append(parts, fmt.Sprint(k.Interface())+":"+logical(v.MapIndex(k), depth+1))
		}
		sort.Strings(parts)
		return "map[" + strings.Join(parts, ",") + "]"
	case reflect.Slice, reflect.Array:
		var parts []string
		for i := 0; i < v.Len(); i++ {
			parts = append(parts, logical(v.Index(i), depth+1))
		}
		return "[" + strings.Join(parts, ",") + "]"
	case reflect.String:
		return fmt.Sprintf("%q", v.String())
	case reflect.Bool:
		return fmt.Sprint(v.Bool())
	case reflect.Int, reflect.Int8, reflect.Int16, reflect.Int32, reflect.Int64:
		return fmt.Sprint(v.Int())
	case reflect.Uint, reflect.Uint8, reflect.Uint16, reflect.Uint32, reflect.Uint64:
		return fmt.Sprint(v.Uint())
	case reflect.Float32, reflect.Float64:
		return fmt.Sprint(v.Float())
	}
	return "?" + v.Kind().String()
}

// logicalStructure walks every element of the document, tombstones included.
func logicalStructure(root *crdt.Object) string {
	var sb strings.Builder
	var walkTree func(n *crdt.TreeNode, depth int)
	walkTree = func(n *crdt.TreeNode, depth int) {
		sb.WriteString(strings.Repeat(" ", depth) + "treenode " + n.Type() + " " + logical(reflect.ValueOf(n), 0) + "\n")
		for _, c := range n.Children(true) {
			walkTree(c, depth+1)
		}
	}
	one := func(e crdt.Element) {
		sb.WriteString(fmt.Sprintf("element %T created=%s moved=%s removed=%s\n", e, e.CreatedAt().Key(), logical(reflect.ValueOf(e.MovedAt()), 1), logical(reflect.ValueOf(e.RemovedAt()), 1)))
		switch t := e.(type) {
		case *crdt.Text:
			for _, n := range t.Nodes() {
				sb.WriteString(" textnode " + logical(reflect.ValueOf(n), 0) + "\n")
			}
		case *crdt.Tree:
			walkTree(t.Root(), 1)
		case *crdt.Array:
			// position nodes in list order, dead positions included (ToTestString shows
			// the shape of the index tree, which is not logical content)
			for _, n := range t.RGANodes() {
				sb.WriteString(" arraynode " + logical(reflect.ValueOf(n), 0) + "\n")
			}
		case *crdt.Primitive:
			sb.WriteString(" " + t.Marshal() + "\n")
		case *crdt.Counter:
			sb.WriteString(" " + t.Marshal() + "\n")
		}
	}
	var lines []string
	collect := func(e crdt.Element) {
		start := sb.Len()
		one(e)
		lines = append(lines, sb.String()[start:])
	}
	collect(root)
	root.Descendants(func(e crdt.Element, _ crdt.Container) bool {
		collect(e)
		return false
	})
	// object members are visited in map order: the set of elements is what counts
	sort.Strings(lines)
	return strings.Join(lines, "")
}

// ---------------------------------------------------------------------------
// lossless half

type codecMonitor struct {
	prop    string
	rc      *RunCtx
	viol    *Violation
	garbage *Violation
}

func (m *codecMonitor) fail(oracle, class, detail string) {
	if m.viol == nil {
		m.viol = &Violation{Property: m.prop, Oracle: oracle, Class: class, Detail: detail, Step: m.rc.I}
	}
}

func firstDiff(a, b string) string {
	n := len(a)
	if len(b) < n {
		n = len(b)
	}
	i := 0
	for i < n && a[i] == b[i] {
		i++
	}
	lo := i - 150
	if lo < 0 {
		lo = 0
	}
	hi := func(s string) int {
		if i+250 < len(s) {
			return i + 250
		}
		return len(s)
	}
	return fmt.Sprintf("at byte %d:\n   %s\n   %s", i, a[lo:hi(a)], b[lo:hi(b)])
}

func (m *codecMonitor) checkPack(where string, pb *api.ChangePack) {
	if pb == nil {
		return
	}
	p, err := converter.FromChangePack(pb)
	if err != nil {
		m.fail("pack_decodes", "own_pack_does_not_decode:"+normErr(err.Error()), where+": a pack the system produced does not decode: "+err.Error())
		return
	}
	pb2, err := converter.ToChangePack(p)
	if err != nil {
		m.fail("pack_reencodes", "decoded_pack_does_not_encode:"+normErr(err.Error()), where+": "+err.Error())
		return
	}
	m.rc.W.probe("pack_reencoded")
	if !proto.Equal(pb, pb2) {
		a, _ := (prototextish{}).format(pb)
		b, _ := (prototextish{}).format(pb2)
		m.fail("pack_reencodes_equal", "pack_changes_by_decode_encode", where+": decode+encode changes the pack "+firstDiff(a, b))
	}
}

type prototextish struct{}

func (prototextish) format(m proto.Message) (string, error) {
	b, err := proto.MarshalOptions{Deterministic: true}.Marshal(m)
	return fmt.Sprintf("%x", b), err
}

func (m *codecMonitor) tap(ev *WireEvent) {
	if ev.ReqPB != nil {
		m.checkPack(fmt.Sprintf("request of client %d (%s)", ev.Client, ev.Proc), ev.ReqPB)
	}
	if ev.RespPB != nil {
		m.checkPack(fmt.Sprintf("response to client %d (%s)", ev.Client, ev.Proc), ev.RespPB)
	}
	// what the server stored is what was pushed
	if ev.OK && ev.Req != nil && ev.DocID != "" && len(ev.Req.Changes) > 0 && !ev.Stale {
		w := m.rc.W
		ctx := context.Background()
		info, err := w.mem.FindDocInfoByKey(ctx, w.Projects[0].ID, docKey(0))
		if err != nil || string(info.ID) != ev.DocID {
			return
		}
		infos, err := w.mem.FindChangeInfosBetweenServerSeqs(ctx, info.RefKey(), 1, info.ServerSeq)
		if err != nil {
			return
		}
		byKey := map[string]*database.ChangeInfo{}
		for _, ci := range infos {
			byKey[fmt.Sprintf("%s/%d/%d", ci.ActorID.String(), ci.ClientSeq, ci.Lamport)] = ci
		}
		for _, c := range ev.Req.Changes {
			ci := byKey[fmt.Sprintf("%s/%d/%d", c.ID().ActorID().String(), c.ClientSeq(), c.ID().Lamport())]
			if ci == nil {
				continue // filtered (already pushed, presence-only on a presenceless document, ...)
			}
			sc, err := ci.ToChange()
			if err != nil {
				m.fail("stored_change_decodes", "stored_change_does_not_decode:"+normErr(err.Error()), err.Error())
				return
			}
			a, err1 := converter.ToChanges([]*change.Change{c})
			b, err2 := converter.ToChanges([]*change.Change{sc})
			if err1 != nil || err2 != nil {
				continue
			}
			// the server adds its sequence number; everything else must be what was pushed
			b[0].Id.ServerSeq = a[0].Id.ServerSeq
			w.probe("stored_change_compared")
			if !proto.Equal(a[0], b[0]) {
				x, _ := (prototextish{}).format(a[0])
				y, _ := (prototextish{}).format(b[0])
				m.fail("stored_change_equals_pushed", "stored_change_differs_from_pushed", fmt.Sprintf("client %d clientSeq %d: %s", ev.Client, c.ClientSeq(), firstDiff(x, y)))
				return
			}
		}
	}
}

func (m *codecMonitor) snapshotRoundTrip(rc *RunCtx, i int, sc *SimClient, sd *SimDoc) *Violation {
	bad := func(oracle, class, detail string) *Violation {
		return &Violation{Property: m.prop, Oracle: oracle, Class: class, Detail: fmt.Sprintf("client %d: %s", sc.Idx, detail), Step: i}
	}
	root := sd.Doc.RootObject()
	b, err := converter.SnapshotToBytes(root, sd.Doc.AllPresences())
	if err != nil {
		return bad("snapshot_encodes", "snapshot_encode_failed:"+normErr(err.Error()), err.Error())
	}
	obj, _, err := converter.BytesToSnapshot(b)
	if err != nil {
		return bad("snapshot_decodes", "own_snapshot_does_not_decode:"+normErr(err.Error()), err.Error())
	}
	rc.W.probe("snapshot_round_trip")
	if got, want := obj.Marshal(), root.Marshal(); got != want {
		return bad("snapshot_keeps_content", "snapshot_round_trip_changes_content", firstDiff(want, got))
	}
	if got, want := logicalStructure(obj), logicalStructure(root); got != want {
		return bad("snapshot_keeps_structure", "snapshot_round_trip_changes_structure", "the decoded document differs below the visible content "+firstDiff(want, got))
	}
	r2 := crdt.NewRoot(obj)
	if got, want := r2.GarbageLen(), sd.Doc.GarbageLen(); got != want && m.garbage == nil && rc.Cfg.Extra["judge_garbage"] > 0 {
		// reported at the end of the run, and only if nothing else fails: the registry of
		// collectable tombstones has several known gaps on the pinned tree (finding
		// garbage-registration-gaps) and must not end every third run early
		m.garbage = bad("snapshot_keeps_garbage", "snapshot_round_trip_changes_garbage_len", fmt.Sprintf("GarbageLen %d before, %d after the round trip (elements %d/%d)", want, got,
			sd.Doc.InternalDocument().Root().GarbageElementLen(), r2.GarbageElementLen()))
	}
	// and once more: what was decoded encodes to something that decodes to the same
	b2, err := converter.SnapshotToBytes(obj, sd.Doc.AllPresences())
	if err == nil {
		if obj2, _, err := converter.BytesToSnapshot(b2); err == nil {
			if logicalStructure(obj2) != logicalStructure(obj) {
				return bad("snapshot_reencodes", "second_round_trip_differs", "decode(encode(decode(encode(d)))) differs from decode(encode(d)) "+firstDiff(logicalStructure(obj), logicalStructure(obj2)))
			}
		}
	}
	return nil
}

func (m *codecMonitor) AfterStep(rc *RunCtx, i int, st *Step, res *StepResult) *Violation {
	if m.viol != nil {
		m.viol.Step = i
		return m.viol
	}
	if (st.Op == "sync" || st.Op == "attach") && res.Err == nil {
		sc := rc.W.Client(st.C)
		if sd := sc.Docs[st.D]; sd != nil {
			if v := m.snapshotRoundTrip(rc, i, sc, sd); v != nil {
				return v
			}
		}
	}
	return nil
}

func (m *codecMonitor) Final(rc *RunCtx) *Violation {
	if m.viol != nil {
		return m.viol
	}
	for _, sc := range rc.AttachedReplicas(0) {
		if v := m.snapshotRoundTrip(rc, rc.I, sc, sc.Docs[0]); v != nil {
			return v
		}
	}
	return m.garbage
}

func c09LosslessMonitors(rc *RunCtx) []Monitor {
	cm := &codecMonitor{prop: "C09", rc: rc}
	rc.W.wireTaps = append(rc.W.wireTaps, cm.tap)
	return append(sessionMonitors("C09", true)(rc), cm)
}

// ---------------------------------------------------------------------------
// hostile half: mutation

type mutator struct {
	r *rand.Rand
	// structuralOK: structure-level mutation is enabled in this run (it is what reaches
	// the known finding hostile-bytes-reach-executing-code; most runs stay at byte level
	// so that they get far enough to say something about the server's survival)
	structuralOK bool
}

func (mu *mutator) bytes(b []byte) []byte {
	out := append([]byte(nil), b...)
	if len(out) == 0 {
		return []byte{byte(mu.r.IntN(256))}
	}
	switch mu.r.IntN(6) {
	case 0: // flip bits
		for k := 0; k < 1+mu.r.IntN(3); k++ {
			out[mu.r.IntN(len(out))] ^= byte(1 << mu.r.IntN(8))
		}
	case 1: // truncate
		out = out[:mu.r.IntN(len(out))]
	case 2: // overwrite a byte
		out[mu.r.IntN(len(out))] = byte(mu.r.IntN(256))
	case 3: // splice a piece of itself somewhere else
		a, c := mu.r.IntN(len(out)), mu.r.IntN(len(out))
		n := 1 + mu.r.IntN(8)
		if a+n > len(out) {
			n = len(out) - a
		}
		piece := append([]byte(nil), out[a:a+n]...)
		out = append(out[:c], append(piece, out[c:]...)...)
	case 4: // drop a piece
		a := mu.r.IntN(len(out))
		n := 1 + mu.r.IntN(8)
		if a+n > len(out) {
			n = len(out) - a
		}
		out = append(out[:a], out[a+n:]...)
	case 5: // a huge length prefix
		a := mu.r.IntN(len(out))
		out[a] = 0xff
	}
	return out
}

type fieldRef struct {
	m protoreflect.Message
	f protoreflect.FieldDescriptor
}

func collectFields(m protoreflect.Message, out *[]fieldRef, depth int) {
	if depth > 40 {
		return
	}
	// in declaration order, map entries by sorted key: Range() has no defined order, and
	// which field a seeded mutation hits must be a function of the seed and the message
	fds := m.Descriptor().Fields()
	for i := 0; i < fds.Len(); i++ {
		f := fds.Get(i)
		if !m.Has(f) {
			continue
		}
		v := m.Get(f)
		*out = append(*out, fieldRef{m, f})
		switch {
		case f.IsMap():
			if f.MapValue().Message() != nil {
				var keys []protoreflect.MapKey
				v.Map().Range(func(k protoreflect.MapKey, _ protoreflect.Value) bool {
					keys = append(keys, k)
					return true
				})
				sort.Slice(keys, func(a, b int) bool { return keys[a].String() < keys[b].String() })
				for _, k := range keys {
					collectFields(v.Map().Get(k).Message(), out, depth+1)
				}
			}
		case f.IsList():
			if f.Message() != nil {
				l := v.List()
				for i := 0; i < l.Len(); i++ {
					collectFields(l.Get(i).Message(), out, depth+1)
				}
			}
		case f.Message() != nil:
			collectFields(v.Message(), out, depth+1)
		}
	}
}

// structural mutates one populated field somewhere inside the message; bytes
// fields that hold a nested element encoding are entered.
func (mu *mutator) structural(msg proto.Message) {
	var fs []fieldRef
	collectFields(msg.ProtoReflect(), &fs, 0)
	if len(fs) == 0 {
		return
	}
	x := fs[mu.r.IntN(len(fs))]
	m, f := x.m, x.f
	v := m.Get(f)
	switch {
	case f.IsList():
		l := m.Mutable(f).List()
		if l.Len() == 0 {
			return
		}
		switch mu.r.IntN(3) {
		case 0:
			l.Truncate(mu.r.IntN(l.Len()))
		case 1:
			l.Append(l.Get(mu.r.IntN(l.Len())))
		default:
			m.Clear(f)
		}
	case f.IsMap():
		m.Clear(f)
	case f.Kind() == protoreflect.BytesKind:
		b := v.Bytes()
		var el api.JSONElement
		if len(b) > 2 && mu.r.IntN(2) == 0 && proto.Unmarshal(b, &el) == nil && el.Body != nil {
			mu.structural(&el)
			if nb, err := detMarshal.Marshal(&el); err == nil {
				m.Set(f, protoreflect.ValueOfBytes(nb))
				return
			}
		}
		if mu.r.IntN(3) == 0 {
			m.Clear(f)
		} else {
			m.Set(f, protoreflect.ValueOfBytes(mu.bytes(b)))
		}
	case f.Message() != nil:
		m.Clear(f)
	case f.Kind() == protoreflect.StringKind:
		switch mu.r.IntN(3) {
		case 0:
			m.Clear(f)
		case 1:
			m.Set(f, protoreflect.ValueOfString(v.String()+"\x00\xff"))
		default:
			m.Set(f, protoreflect.ValueOfString(strings.Repeat("z", 1+mu.r.IntN(40))))
		}
	case f.Kind() == protoreflect.BoolKind:
		m.Set(f, protoreflect.ValueOfBool(!v.Bool()))
	case f.Kind() == protoreflect.EnumKind:
		m.Set(f, protoreflect.ValueOfEnum(protoreflect.EnumNumber(mu.r.IntN(40))))
	case f.Kind() == protoreflect.Int32Kind || f.Kind() == protoreflect.Sint32Kind || f.Kind() == protoreflect.Sfixed32Kind:
		m.Set(f, protoreflect.ValueOfInt32([]int32{0, -1, 1 << 30, int32(v.Int()) + 1}[mu.r.IntN(4)]))
	case f.Kind() == protoreflect.Int64Kind || f.Kind() == protoreflect.Sint64Kind || f.Kind() == protoreflect.Sfixed64Kind:
		m.Set(f, protoreflect.ValueOfInt64([]int64{0, -1, 1 << 60, v.Int() + 1, v.Int() - 1}[mu.r.IntN(5)]))
	case f.Kind() == protoreflect.Uint32Kind || f.Kind() == protoreflect.Fixed32Kind:
		m.Set(f, protoreflect.ValueOfUint32([]uint32{0, 1 << 31, uint32(v.Uint()) + 1}[mu.r.IntN(3)]))
	case f.Kind() == protoreflect.Uint64Kind || f.Kind() == protoreflect.Fixed64Kind:
		m.Set(f, protoreflect.ValueOfUint64([]uint64{0, 1 << 63, v.Uint() + 1}[mu.r.IntN(3)]))
	default:
		m.Clear(f)
	}
}

var detMarshal = proto.MarshalOptions{Deterministic: true}

// canonical puts a decoded message into a form that does not depend on the process:
// object members are listed in Go map order by the encoder (sorted here), protobuf maps
// are written in random order (deterministic marshalling), nested element encodings
// are treated alike. Only then is "the byte at offset n" a function of the run.
func canonical(m protoreflect.Message, depth int) {
	if depth > 40 {
		return
	}
	fds := m.Descriptor().Fields()
	for i := 0; i < fds.Len(); i++ {
		f := fds.Get(i)
		if !m.Has(f) {
			continue
		}
		switch {
		case f.IsMap():
			if f.MapValue().Message() != nil {
				m.Get(f).Map().Range(func(_ protoreflect.MapKey, v protoreflect.Value) bool {
					canonical(v.Message(), depth+1)
					return true
				})
			}
		case f.IsList() && f.Message() != nil:
			l := m.Mutable(f).List()
			var items []protoreflect.Value
			for k := 0; k < l.Len(); k++ {
				canonical(l.Get(k).Message(), depth+1)
				items = append(items, l.Get(k))
			}
			if f.Message().Name() == "RHTNode" {
				keys := make([]string, len(items))
				for k, it := range items {
					b, _ := detMarshal.Marshal(it.Message().Interface())
					keys[k] = string(b)
				}
				idx := make([]int, len(items))
				for k := range idx {
					idx[k] = k
				}
				sort.SliceStable(idx, func(a, b int) bool { return keys[idx[a]] < keys[idx[b]] })
				cp := make([]protoreflect.Value, len(items))
				for k, j := range idx {
					cp[k] = protoreflect.ValueOfMessage(proto.Clone(items[j].Message().Interface()).ProtoReflect())
				}
				l.Truncate(0)
				for _, v := range cp {
					l.Append(v)
				}
			}
		case f.Message() != nil:
			canonical(m.Mutable(f).Message(), depth+1)
		case f.Kind() == protoreflect.BytesKind && !f.IsList():
			b := m.Get(f).Bytes()
			var el api.JSONElement
			var snap api.Snapshot
			if f.Name() == "snapshot" && len(b) > 2 && proto.Unmarshal(b, &snap) == nil && snap.Root != nil {
				// ChangePack.snapshot: a whole document (members in map order, presences a map)
				canonical(snap.ProtoReflect(), depth+1)
				if nb, err := detMarshal.Marshal(&snap); err == nil {
					m.Set(f, protoreflect.ValueOfBytes(nb))
				}
			} else if len(b) > 2 && proto.Unmarshal(b, &el) == nil && el.Body != nil {
				canonical(el.ProtoReflect(), depth+1)
				if nb, err := detMarshal.Marshal(&el); err == nil {
					m.Set(f, protoreflect.ValueOfBytes(nb))
				}
			}
		}
	}
}

// message: the body is a protobuf of type msg; a structural or a byte-level mutation
// is applied to its canonical form.
func (mu *mutator) message(b []byte, msg proto.Message) []byte {
	if proto.Unmarshal(b, msg) != nil {
		return mu.bytes(b)
	}
	canonical(msg.ProtoReflect(), 0)
	if mu.structuralOK && mu.r.IntN(3) > 0 {
		for k := 0; k < 1+mu.r.IntN(2); k++ {
			mu.structural(msg)
		}
		if nb, err := detMarshal.Marshal(msg); err == nil {
			return nb
		}
	}
	cb, err := detMarshal.Marshal(msg)
	if err != nil {
		return mu.bytes(b)
	}
	return mu.bytes(cb)
}

func requestMessage(proc string) proto.Message {
	switch proc {
	case "YorkieService/AttachDocument":
		return &api.AttachDocumentRequest{}
	case "YorkieService/PushPullChanges":
		return &api.PushPullChangesRequest{}
	case "YorkieService/DetachDocument":
		return &api.DetachDocumentRequest{}
	case "YorkieService/RemoveDocument":
		return &api.RemoveDocumentRequest{}
	case "YorkieService/ActivateClient":
		return &api.ActivateClientRequest{}
	case "YorkieService/DeactivateClient":
		return &api.DeactivateClientRequest{}
	}
	return nil
}

func responseMessage(proc string) proto.Message {
	switch proc {
	case "YorkieService/AttachDocument":
		return &api.AttachDocumentResponse{}
	case "YorkieService/PushPullChanges":
		return &api.PushPullChangesResponse{}
	case "YorkieService/DetachDocument":
		return &api.DetachDocumentResponse{}
	case "YorkieService/RemoveDocument":
		return &api.RemoveDocumentResponse{}
	case "YorkieService/ActivateClient":
		return &api.ActivateClientResponse{}
	case "YorkieService/DeactivateClient":
		return &api.DeactivateClientResponse{}
	}
	return nil
}

// corruptBody is called by the transport for a step whose network fault is
// corrupt_req / corrupt_resp.
func (w *World) corruptBody(seed int, proc string, body []byte, request bool) []byte {
	mu := &mutator{r: rand.New(rand.NewPCG(uint64(seed), 0x2545f4914f6cdd1d)), structuralOK: w.Cfg.Extra["structural"] > 0}
	var msg proto.Message
	if request {
		msg = requestMessage(proc)
	} else {
		msg = responseMessage(proc)
	}
	if msg == nil {
		return mu.bytes(body)
	}
	return mu.message(body, msg)
}

// execCorruptStore mutates stored bytes of the document: a snapshot or the
// operations of a change.
func (w *World) execCorruptStore(st *Step) (res StepResult) {
	res.Out = "skip"
	mu := &mutator{r: rand.New(rand.NewPCG(uint64(st.I), 0x9fb21c651e98df25)), structuralOK: w.Cfg.Extra["structural"] > 0}
	db := w.rawMemDB()
	tbl := "changes"
	if st.Flag == "snapshot" {
		tbl = "snapshots"
	}
	txn := db.Txn(true)
	defer txn.Abort()
	it, err := txn.Get(tbl, "id")
	if err != nil {
		return res
	}
	var rows []any
	for raw := it.Next(); raw != nil; raw = it.Next() {
		rows = append(rows, raw)
	}
	if len(rows) == 0 {
		return res
	}
	raw := rows[mod(st.J, len(rows))]
	switch row := raw.(type) {
	case *database.ChangeInfo:
		if len(row.Operations) == 0 {
			return res
		}
		c := row.DeepCopy()
		k := mu.r.IntN(len(c.Operations))
		var op api.Operation
		c.Operations[k] = mu.message(c.Operations[k], &op)
		if err := txn.Insert(tbl, c); err != nil {
			return res
		}
	case *database.SnapshotInfo:
		c := row.DeepCopy()
		if plain, err := database.DecompressSnapshot(c.Snapshot); err == nil && mu.r.IntN(4) > 0 {
			var snap api.Snapshot
			plain = mu.message(plain, &snap)
			if cz, err := database.CompressSnapshot(plain); err == nil {
				c.Snapshot = cz
			} else {
				c.Snapshot = mu.bytes(c.Snapshot)
			}
		} else {
			c.Snapshot = mu.bytes(c.Snapshot) // the compressed bytes themselves
		}
		if err := txn.Insert(tbl, c); err != nil {
			return res
		}
	default:
		return res
	}
	txn.Commit()
	w.gen.be.Cache.Snapshot.Purge()
	w.fault("stored_bytes_corrupted:" + tbl)
	res.Out = "ok"
	return res
}

var _ = memdb.MemDB{}

// execDecodeHostile feeds mutated real encodings directly to the decoders and,
// when they are accepted, uses the result.
func (w *World) execDecodeHostile(st *Step) (res StepResult) {
	res.Out = "ok"
	sc := w.Client(st.C)
	sd := sc.Docs[0]
	if sd == nil {
		res.Out = "skip"
		return res
	}
	mu := &mutator{r: rand.New(rand.NewPCG(uint64(st.I), 0xd1342543de82ef95)), structuralOK: w.Cfg.Extra["structural"] > 0}
	guard := func(what string, f func()) {
		defer func() {
			if r := recover(); r != nil {
				w.notePanic("decoder:"+what, r, string(debug.Stack()))
			}
		}()
		f()
	}
	root := sd.Doc.RootObject()
	for round := 0; round < 12; round++ {
		switch mu.r.IntN(4) {
		case 0:
			b, err := converter.SnapshotToBytes(root, sd.Doc.AllPresences())
			if err != nil {
				continue
			}
			var snap api.Snapshot
			mb := mu.message(b, &snap)
			guard("BytesToSnapshot", func() {
				obj, _, err := converter.BytesToSnapshot(mb)
				w.probe("hostile_snapshot_decoded")
				if err == nil && obj != nil {
					w.probe("hostile_snapshot_accepted")
					_ = obj.Marshal()
					r := crdt.NewRoot(obj)
					_ = r.GarbageLen()
					if _, err := r.GarbageCollect(sd.Doc.VersionVector()); err != nil {
						return
					}
					_, _ = converter.SnapshotToBytes(obj, nil)
				}
			})
		case 1:
			// one element of the document through its own codec
			var elems []crdt.Element
			root.Descendants(func(e crdt.Element, _ crdt.Container) bool {
				switch e.(type) {
				case *crdt.Array, *crdt.Tree, *crdt.Object:
					elems = append(elems, e)
				}
				return false
			})
			if len(elems) == 0 {
				continue
			}
			// actor ids differ from process to process and from a run to its replay:
			// order by clock, then by the SLOT of the author
			rank := func(e crdt.Element) string {
				t := e.CreatedAt()
				return fmt.Sprintf("%012d/%06d/%s", t.Lamport(), t.Delimiter(), w.ActorNames[t.ActorID().String()])
			}
			sort.Slice(elems, func(i, j int) bool { return rank(elems[i]) < rank(elems[j]) })
			var el api.JSONElement
			switch e := elems[mu.r.IntN(len(elems))].(type) {
			case *crdt.Array:
				if b, err := converter.ArrayToBytes(e); err == nil {
					mb := mu.message(b, &el)
					guard("BytesToArray", func() {
						if a, err := converter.BytesToArray(mb); err == nil && a != nil {
							_ = a.Marshal()
							_ = a.ToTestString()
							_, _ = a.DeepCopy()
						}
					})
				}
			case *crdt.Tree:
				if b, err := converter.TreeToBytes(e); err == nil {
					mb := mu.message(b, &el)
					guard("BytesToTree", func() {
						if t, err := converter.BytesToTree(mb); err == nil && t != nil {
							_ = t.ToXML()
							_ = t.Marshal()
							_, _ = t.DeepCopy()
						}
					})
				}
			case *crdt.Object:
				if b, err := converter.ObjectToBytes(e); err == nil {
					mb := mu.message(b, &el)
					guard("BytesToObject", func() {
						if o, err := converter.BytesToObject(mb); err == nil && o != nil {
							_ = o.Marshal()
							_, _ = o.DeepCopy()
						}
					})
				}
			}
		default:
			// a pack seen on the wire, mutated, decoded and applied to a copy of the replica
			if len(w.seenPacks) == 0 {
				continue
			}
			b := w.seenPacks[mu.r.IntN(len(w.seenPacks))]
			var pb api.ChangePack
			mb := mu.message(b, &pb)
			guard("FromChangePack", func() {
				var p2 api.ChangePack
				if proto.Unmarshal(mb, &p2) != nil {
					return
				}
				pack, err := converter.FromChangePack(&p2)
				w.probe("hostile_pack_decoded")
				if err != nil || pack == nil {
					return
				}
				w.probe("hostile_pack_accepted")
				b, err := converter.SnapshotToBytes(root, nil)
				if err != nil {
					return
				}
				obj, _, err := converter.BytesToSnapshot(b)
				if err != nil {
					return
				}
				_ = obj
				d, err := document.NewInternalDocumentFromSnapshot(docKey(0), 0, 0, time.NewVersionVector(), b)
				if err != nil || d == nil {
					return
				}
				_ = d.ApplyChangePack(pack, false)
				_ = d.Marshal()
			})
		}
	}
	return res
}

// panicClass2: the two innermost yorkie frames (who dereferenced what it got from whom).
func panicClass2(stack string) string {
	var fr []string
	for _, line := range strings.Split(stack, "\n") {
		line = strings.TrimSpace(line)
		if strings.HasPrefix(line, "github.com/yorkie-team/yorkie/") {
			if i := strings.LastIndex(line, "("); i > 0 {
				line = line[:i]
			}
			fr = append(fr, strings.TrimPrefix(line, "github.com/yorkie-team/yorkie/"))
			if len(fr) == 2 {
				break
			}
		}
	}
	return strings.Join(fr, "<")
}

// ---------------------------------------------------------------------------

// hostileMonitor: the run goes on after a recovered panic; at the end the first one is
// the run's violation (a server process that dies never gets here: the driver reports
// that on its own).
type hostileMonitor struct{ prop string }

func (m *hostileMonitor) AfterStep(rc *RunCtx, i int, st *Step, res *StepResult) *Violation {
	if res.Out == "hang" {
		return &Violation{Property: m.prop, Oracle: "no_hang", Class: "hang:" + st.Op, Detail: "step did not finish: " + st.String(), Step: i}
	}
	return nil
}

func (m *hostileMonitor) Final(rc *RunCtx) *Violation {
	w := rc.W
	if len(w.Panics) == 0 {
		return nil
	}
	return &Violation{Property: m.prop, Oracle: "hostile_bytes_do_not_panic", Class: "panicked:" + w.Panics[0],
		Detail: fmt.Sprintf("%d panics were recovered in this run; the first: %s", len(w.Panics), w.PanicInfo[0]), Step: rc.I}
}

func c09HostileConfig(r *rand.Rand) *RunConfig {
	cfg := c01Config(false)(r)
	cfg.Clients = 2 + r.IntN(2)
	cfg.Steps = 25 + r.IntN(60)
	cfg.SnapshotThreshold = pickN(r, []int64{3, 10, 500})
	cfg.SnapshotInterval = pickN(r, []int64{3, 10, 500})
	cfg.Kinds = swarmKinds(r, allKinds, "create", "arr", "arrmove", "tree")
	cfg.Extra["hostile_pct"] = 10 + r.IntN(20)
	if r.IntN(5) == 0 {
		cfg.Extra["structural"] = 1
	}
	cfg.Extra["recover_panics"] = 1
	delete(cfg.W, "rejoin")
	delete(cfg.W, "vanish")
	return cfg
}

func c09HostileNext(rc *RunCtx) *Step {
	s := rc.sess()
	if len(s.queue) == 0 && rc.I > 8 && rc.I < rc.Cfg.Steps && rc.R.IntN(100) < rc.Cfg.Extra["hostile_pct"] {
		c := rc.R.IntN(rc.Cfg.Clients)
		sc := rc.W.Client(c)
		attached := sc.Docs[0] != nil && sc.Cli.IsActive()
		switch x := rc.R.IntN(10); {
		case x < 4:
			return &Step{Op: "decode_hostile", C: c, I: rc.R.IntN(1 << 30)}
		case x < 6 && attached:
			return &Step{Op: "sync", C: c, Net: "corrupt_req", I: rc.R.IntN(1 << 30)}
		case x < 8 && attached:
			return &Step{Op: "sync", C: c, Net: "corrupt_resp", I: rc.R.IntN(1 << 30)}
		case x < 9:
			return &Step{Op: "corrupt_store", Flag: "change", I: rc.R.IntN(1 << 30), J: rc.R.IntN(1 << 20)}
		default:
			return &Step{Op: "corrupt_store", Flag: "snapshot", I: rc.R.IntN(1 << 30), J: rc.R.IntN(1 << 20)}
		}
	}
	return SessionNext(rc)
}

func init() {
	Register(&Profile{Name: "c09_lossless", Property: "C09", Config: func(r *rand.Rand) *RunConfig {
		cfg := c01Config(r.IntN(3) == 0)(r)
		cfg.SnapshotThreshold = pickN(r, []int64{3, 10, 500, 1000})
		cfg.SnapshotInterval = pickN(r, []int64{3, 10, 500})
		// GarbageLen is compared in one run of ten (known finding garbage-registration-gaps:
		// it fails in every third run and every failure costs a minimisation)
		if r.IntN(10) == 0 {
			cfg.Extra["judge_garbage"] = 1
		}
		return cfg
	}, Next: SessionNext, Monitors: c09LosslessMonitors,
		Nontrivial: func(rc *RunCtx) bool {
			p := rc.W.Stats.Probes
			return p["pack_reencoded"] >= 4 && p["snapshot_round_trip"] >= 2 && p["stored_change_compared"] >= 1
		}})
	Register(&Profile{Name: "c09_hostile", Property: "C09", Config: c09HostileConfig, Next: c09HostileNext, NoQuiesce: true,
		Monitors: func(rc *RunCtx) []Monitor {
			rc.W.keepPacks = true
			return []Monitor{&sessionTap{}, &hostileMonitor{prop: "C09"}}
		},
		Nontrivial: func(rc *RunCtx) bool {
			f, p := rc.W.Stats.Faults, rc.W.Stats.Probes
			return f["net_corrupt_request"]+f["net_corrupt_response"]+f["stored_bytes_corrupted:changes"]+f["stored_bytes_corrupted:snapshots"]+p["hostile_snapshot_decoded"]+p["hostile_pack_decoded"] >= 2
		}})
}
