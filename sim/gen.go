package sim

import (
	"fmt"
	"math/rand/v2"
	"sort"

	"github.com/yorkie-team/yorkie/pkg/document/crdt"
	yjson "github.com/yorkie-team/yorkie/pkg/document/json"
)

// Gen draws steps from the PRNG by looking at the acting replica's visible
// state, so that every generated call is valid at the moment it is issued.
type Gen struct {
	R   *rand.Rand
	W   *World
	Cfg *RunConfig
	seq int
}

func (g *Gen) uniq(c int) string {
	g.seq++
	return fmt.Sprintf("c%dv%d", c, g.seq)
}

func (g *Gen) uniqInt(c int) int64 {
	g.seq++
	return int64(c*100000 + g.seq)
}

// weighted picks a key of m by weight; keys are visited in sorted order so
// that the choice is a function of the PRNG alone.
func weighted(r *rand.Rand, m map[string]int) string {
	keys := make([]string, 0, len(m))
	total := 0
	for k, v := range m {
		if v > 0 {
			keys = append(keys, k)
			total += v
		}
	}
	if total == 0 {
		return ""
	}
	sort.Strings(keys)
	n := r.IntN(total)
	for _, k := range keys {
		n -= m[k]
		if n < 0 {
			return k
		}
	}
	return keys[len(keys)-1]
}

type target struct {
	path  []string
	kind  string // obj arr text cnt dcnt tree
	depth int
	n     int // length / size
	keys  []string
}

// targets lists the containers visible on the replica.
func targets(root *yjson.Object) []target {
	var out []target
	var walk func(v any, path []string, depth int)
	walk = func(v any, path []string, depth int) {
		switch t := v.(type) {
		case *yjson.Object:
			keys := make([]string, 0)
			for k := range t.Object.Members() {
				if depth == 0 && isConservationKey(k) {
					continue // owned by the conservation workload
				}
				keys = append(keys, k)
			}
			sort.Strings(keys)
			out = append(out, target{path: path, kind: "obj", depth: depth, n: len(keys), keys: keys})
			if depth >= 3 {
				return
			}
			for _, k := range keys {
				walk(childOfObject(t, k), append(append([]string(nil), path...), k), depth+1)
			}
		case *yjson.Array:
			out = append(out, target{path: path, kind: "arr", depth: depth, n: t.Len()})
			if depth >= 3 {
				return
			}
			for i := 0; i < t.Len(); i++ {
				switch t.Get(i).(type) {
				case *crdt.Primitive:
				default:
					walk(childOfArray(t, i), append(append([]string(nil), path...), fmt.Sprintf("#%d", i)), depth+1)
				}
			}
		case *yjson.Text:
			out = append(out, target{path: path, kind: "text", depth: depth, n: textLen(t)})
		case *yjson.Counter:
			k := "cnt"
			if t.Counter.IsDedup() {
				k = "dcnt"
			}
			out = append(out, target{path: path, kind: k, depth: depth})
		case *yjson.Tree:
			out = append(out, target{path: path, kind: "tree", depth: depth, n: t.Len()})
		}
	}
	walk(root, nil, 0)
	return out
}

var keyVocab = map[string][]string{
	"prim": {"p0", "p1", "p2"},
	"obj":  {"o0", "o1"},
	"arr":  {"a0", "a1"},
	"text": {"t0", "t1"},
	"cnt":  {"c0"},
	"lcnt": {"l0"},
	"dcnt": {"d0"},
	"tree": {"r0"},
}

func (g *Gen) primVal(c int) *Val {
	switch g.R.IntN(12) {
	case 0:
		return &Val{T: "null"}
	case 1:
		return &Val{T: "bool", B: g.R.IntN(2) == 0}
	case 2, 3, 4:
		return &Val{T: "int", I: g.uniqInt(c)}
	case 5:
		return &Val{T: "long", I: g.uniqInt(c) << 20}
	case 6:
		return &Val{T: "double", F: float64(g.uniqInt(c)) + 0.5}
	case 7:
		return &Val{T: "bytes", S: g.uniq(c)}
	case 8:
		return &Val{T: "date", I: 946684800000 + g.uniqInt(c)}
	default:
		return &Val{T: "str", S: g.uniq(c)}
	}
}

func (g *Gen) elemVal(c int) *Val {
	if g.R.IntN(3) == 0 {
		return &Val{T: "int", I: g.uniqInt(c)}
	}
	return &Val{T: "str", S: g.uniq(c)}
}

var attrKeys = []string{"b", "i", "color"}

func (g *Gen) attrs(c int) map[string]string {
	m := map[string]string{}
	n := 1 + g.R.IntN(2)
	for i := 0; i < n; i++ {
		m[attrKeys[g.R.IntN(len(attrKeys))]] = fmt.Sprintf("c%d", c) + string(rune('a'+g.R.IntN(4)))
	}
	return m
}

var exotic = []string{"😀", "한", "é", "𝄞", " "}

func (g *Gen) textContent(c int) string {
	if g.Cfg.Kinds["utf16"] > 0 && g.R.IntN(8) == 0 {
		return exotic[g.R.IntN(len(exotic))]
	}
	g.seq++
	s := fmt.Sprintf("%c%d", 'A'+byte(mod(c, 26)), g.seq%1000)
	return s[:1+g.R.IntN(len(s))]
}

func (g *Gen) treeText(c int) string {
	g.seq++
	s := fmt.Sprintf("%c%d", 'a'+byte(mod(c, 26)), g.seq%100)
	return s[:1+g.R.IntN(len(s))]
}

// kindsFor returns which container kinds an edit family can act on.
func (g *Gen) on(k string) bool { return g.Cfg.Kinds[k] > 0 }

// GenEdit produces one edit for client c on the given root, or nil.
func (g *Gen) GenEdit(c int, root *yjson.Object) *Edit {
	ts := targets(root)
	// choose a family first, then a target of a fitting kind
	fam := map[string]int{}
	have := map[string][]target{}
	for _, t := range ts {
		have[t.kind] = append(have[t.kind], t)
	}
	for k, wgt := range g.Cfg.Kinds {
		switch k {
		case "obj", "create":
			if len(have["obj"]) > 0 {
				fam[k] = wgt
			}
		case "arr", "arrmove", "arrset", "arrdel", "nest":
			if len(have["arr"]) > 0 {
				fam[k] = wgt
			}
		case "text", "style", "textdel":
			if len(have["text"]) > 0 {
				fam[k] = wgt
			}
		case "cnt":
			if len(have["cnt"]) > 0 {
				fam[k] = wgt
			}
		case "dcnt":
			if len(have["dcnt"]) > 0 {
				fam[k] = wgt
			}
		case "tree", "treestyle":
			if len(have["tree"]) > 0 {
				fam[k] = wgt
			}
		}
	}
	f := weighted(g.R, fam)
	if f == "" {
		f = "create"
	}
	pick := func(kind string) target {
		l := have[kind]
		return l[g.R.IntN(len(l))]
	}
	if g.on("yson") && g.R.IntN(25) == 0 && len(have["obj"]) > 0 {
		t := pick("obj")
		return &Edit{K: "o.yson", P: t.path, Key: "y" + string(rune('0'+g.R.IntN(2))), Y: g.ysonLiteral(c, 0)}
	}
	switch f {
	case "create":
		objs := have["obj"]
		if len(objs) == 0 {
			return nil
		}
		t := objs[g.R.IntN(len(objs))]
		return g.genCreate(c, t)
	case "obj":
		t := pick("obj")
		r := g.R.IntN(10)
		if r < 3 && t.n > 0 {
			return &Edit{K: "o.del", P: t.path, Key: t.keys[g.R.IntN(len(t.keys))]}
		}
		v := keyVocab["prim"]
		return &Edit{K: "o.set", P: t.path, Key: v[g.R.IntN(len(v))], V: g.primVal(c)}
	case "arr":
		t := pick("arr")
		if t.n == 0 || g.R.IntN(3) == 0 {
			return &Edit{K: "a.add", P: t.path, V: g.elemVal(c)}
		}
		return &Edit{K: "a.ins", P: t.path, I: g.R.IntN(t.n), V: g.elemVal(c)}
	case "arrdel":
		t := pick("arr")
		if t.n == 0 {
			return &Edit{K: "a.add", P: t.path, V: g.elemVal(c)}
		}
		i := g.R.IntN(t.n)
		if g.R.IntN(3) == 0 {
			i = t.n - 1 // deleting the tail is what append-after-delete needs
		}
		return &Edit{K: "a.del", P: t.path, I: i}
	case "arrset":
		t := pick("arr")
		if t.n == 0 {
			return &Edit{K: "a.add", P: t.path, V: g.elemVal(c)}
		}
		return &Edit{K: "a.set", P: t.path, I: g.R.IntN(t.n), V: g.elemVal(c)}
	case "arrmove":
		t := pick("arr")
		if t.n < 2 {
			return &Edit{K: "a.add", P: t.path, V: g.elemVal(c)}
		}
		i, j := g.R.IntN(t.n), g.R.IntN(t.n)
		if i == j {
			j = (j + 1) % t.n
		}
		switch g.R.IntN(4) {
		case 0:
			return &Edit{K: "a.mvf", P: t.path, J: 1 + g.R.IntN(t.n-1)}
		case 1:
			return &Edit{K: "a.mvl", P: t.path, J: g.R.IntN(t.n - 1)}
		case 2:
			return &Edit{K: "a.mvb", P: t.path, I: i, J: j}
		default:
			return &Edit{K: "a.mva", P: t.path, I: i, J: j}
		}
	case "nest":
		t := pick("arr")
		if t.depth >= 2 {
			return &Edit{K: "a.add", P: t.path, V: g.elemVal(c)}
		}
		kinds := []string{"obj", "arr", "text", "cnt"}
		return &Edit{K: "a.new", P: t.path, T: kinds[g.R.IntN(len(kinds))], I: int(g.R.IntN(100))}
	case "text":
		t := pick("text")
		from := g.R.IntN(t.n + 1)
		e := &Edit{K: "t.edit", P: t.path, I: from, J: from, S: g.textContent(c)}
		if t.n > 0 && g.R.IntN(4) == 0 { // replace
			e.J = g.R.IntN(t.n + 1)
			e.L = 1 + g.R.IntN(4)
		}
		if g.on("style") && g.R.IntN(4) == 0 {
			e.A = g.attrs(c)
		}
		return e
	case "textdel":
		t := pick("text")
		if t.n == 0 {
			return &Edit{K: "t.edit", P: t.path, S: g.textContent(c)}
		}
		from := g.R.IntN(t.n)
		return &Edit{K: "t.edit", P: t.path, I: from, J: from + 1 + g.R.IntN(t.n-from), L: 1 + g.R.IntN(5)}
	case "style":
		t := pick("text")
		if t.n == 0 {
			return &Edit{K: "t.edit", P: t.path, S: g.textContent(c)}
		}
		from := g.R.IntN(t.n)
		return &Edit{K: "t.style", P: t.path, I: from, J: from + 1 + g.R.IntN(t.n-from), A: g.attrs(c)}
	case "cnt":
		t := pick("cnt")
		v := int64(1 + g.R.IntN(9))
		switch g.R.IntN(20) {
		case 0:
			v = 2147483647
		case 1:
			v = -int64(1 + g.R.IntN(9))
		case 2:
			v = 1 << 40
		}
		return &Edit{K: "c.inc", P: t.path, V: &Val{T: "long", I: v}}
	case "dcnt":
		t := pick("dcnt")
		return &Edit{K: "c.dadd", P: t.path, S: fmt.Sprintf("u%d", g.R.IntN(6))}
	case "tree":
		t := pick("tree")
		e := &Edit{P: t.path, I: g.R.IntN(8), J: g.R.IntN(8)}
		if g.on("treepath") && g.R.IntN(3) == 0 {
			e.T = "path"
		}
		switch r := g.R.IntN(10); {
		case r < 4:
			e.K, e.S = "r.tins", g.treeText(c)
		case r < 6:
			e.K, e.L = "r.tdel", 1+g.R.IntN(3)
			if g.R.IntN(3) == 0 {
				e.S = g.treeText(c)
			}
		case r < 8:
			e.K, e.S = "r.eins", g.treeText(c)
			if g.R.IntN(4) == 0 {
				e.S = ""
			}
		default:
			e.K = "r.edel"
			if g.on("tree_noedel") {
				e.K, e.S = "r.eins", g.treeText(c)
			}
		}
		return e
	case "treestyle":
		t := pick("tree")
		e := &Edit{P: t.path, I: g.R.IntN(8)}
		if g.R.IntN(3) == 0 {
			e.K = "r.rmstyle"
			e.R = []string{attrKeys[g.R.IntN(len(attrKeys))]}
		} else {
			e.K = "r.style"
			e.A = g.attrs(c)
			if g.on("treepath") && g.R.IntN(3) == 0 {
				e.T = "path"
			}
		}
		return e
	}
	return nil
}

// genCreate creates (or, rarely, overwrites) a container under an object.
func (g *Gen) genCreate(c int, t target) *Edit {
	choices := map[string]int{}
	for _, k := range []string{"obj", "arr", "text", "cnt", "lcnt", "dcnt", "tree"} {
		base := k
		switch k {
		case "lcnt":
			base = "cnt"
		case "obj":
			if t.depth >= 2 {
				continue
			}
		}
		if !g.on(base) && !(k == "obj" && g.on("create")) {
			continue
		}
		if k == "tree" && t.depth > 0 {
			continue
		}
		choices[k] = 1
	}
	k := weighted(g.R, choices)
	if k == "" {
		v := keyVocab["prim"]
		return &Edit{K: "o.set", P: t.path, Key: v[g.R.IntN(len(v))], V: g.primVal(c)}
	}
	vocab := keyVocab[k]
	key := vocab[g.R.IntN(len(vocab))]
	exists := false
	for _, kk := range t.keys {
		if kk == key {
			exists = true
		}
	}
	if exists && g.R.IntN(6) != 0 {
		// usually leave existing containers alone: overwriting everything all
		// the time keeps documents empty
		v := keyVocab["prim"]
		return &Edit{K: "o.set", P: t.path, Key: v[g.R.IntN(len(v))], V: g.primVal(c)}
	}
	return &Edit{K: "o.new", P: t.path, Key: key, T: k, I: g.R.IntN(100)}
}

// GenPresence produces a presence edit.
func (g *Gen) GenPresence(c int) *Edit {
	keys := []string{"cursor", "name", "sel"}
	if g.R.IntN(5) == 0 {
		return &Edit{K: "p.del", Key: keys[g.R.IntN(len(keys))]}
	}
	return &Edit{K: "p.set", Key: keys[g.R.IntN(len(keys))], S: g.uniq(c)}
}

// GenEditNoTombstones is the workload of an attachment that opted out of GC
// on the wire (docs/design/disable-gc-on-attach.md): counters, primitive
// replacement, presence.
func (g *Gen) GenEditNoTombstones(c int, root *yjson.Object) *Edit {
	var cnts []target
	for _, t := range targets(root) {
		if t.kind == "cnt" {
			cnts = append(cnts, t)
		}
	}
	if len(cnts) > 0 && g.R.IntN(2) == 0 {
		t := cnts[g.R.IntN(len(cnts))]
		return &Edit{K: "c.inc", P: t.path, V: &Val{T: "long", I: int64(1 + g.R.IntN(9))}}
	}
	v := keyVocab["prim"]
	return &Edit{K: "o.set", Key: v[g.R.IntN(len(v))], V: g.primVal(c)}
}

// isConservationKey reports whether a root key belongs to the conservation
// workload (k<c>, tk<c>, tx<c>), which ordinary edits must leave alone.
func isConservationKey(k string) bool {
	i := 0
	switch {
	case len(k) > 2 && (k[:2] == "tk" || k[:2] == "tx"):
		i = 2
	case len(k) > 1 && k[0] == 'k':
		i = 1
	default:
		return false
	}
	for ; i < len(k); i++ {
		if k[i] < '0' || k[i] > '9' {
			return false
		}
	}
	return true
}

// ysonLiteral generates a YSON literal of every element type.
func (g *Gen) ysonLiteral(c int, depth int) string {
	prim := func() string {
		switch g.R.IntN(7) {
		case 0:
			return fmt.Sprintf("Int(%d)", g.uniqInt(c)%100000)
		case 1:
			return fmt.Sprintf("Long(%d)", g.uniqInt(c)<<20)
		case 2:
			return "null"
		case 3:
			return "true"
		case 4:
			return fmt.Sprintf("%d.5", g.uniqInt(c)%1000)
		case 5:
			return `BinData("AQID")`
		default:
			return fmt.Sprintf("%q", g.uniq(c))
		}
	}
	if depth >= 2 {
		return prim()
	}
	switch g.R.IntN(8) {
	case 0:
		n := g.R.IntN(4)
		s := "{"
		for i := 0; i < n; i++ {
			if i > 0 {
				s += ","
			}
			s += fmt.Sprintf("%q:%s", fmt.Sprintf("k%d", i), g.ysonLiteral(c, depth+1))
		}
		return s + "}"
	case 1:
		n := g.R.IntN(4)
		s := "["
		for i := 0; i < n; i++ {
			if i > 0 {
				s += ","
			}
			s += g.ysonLiteral(c, depth+1)
		}
		return s + "]"
	case 2:
		return fmt.Sprintf(`Text([{"val":%q,"attrs":{"b":"1"}},{"val":%q}])`, g.textContent(c), g.textContent(c))
	case 3:
		return fmt.Sprintf(`Tree({"type":"doc","children":[{"type":"p","attrs":{"a":"1"},"children":[{"type":"text","value":%q}]},{"type":"p","children":[]}]})`, g.treeText(c))
	case 4:
		return fmt.Sprintf("Counter(Int(%d))", g.R.IntN(100))
	case 5:
		return fmt.Sprintf("Counter(Long(%d))", int64(g.R.IntN(100))<<33)
	default:
		return prim()
	}
}
