package sim

import (
	"context"
	"fmt"
	"math/rand/v2"
	"strings"

	"github.com/yorkie-team/yorkie/api/types"
	"github.com/yorkie-team/yorkie/pkg/attachable"
	"github.com/yorkie-team/yorkie/pkg/document"
	"github.com/yorkie-team/yorkie/pkg/document/change"
	"github.com/yorkie-team/yorkie/server/backend/database"
)

// compactionMonitor: compaction keeps the content later attachers receive,
// is refused while the document is attached (unless forced), strictly
// increases the epoch; a client of the old generation is refused (and stores
// nothing) until it re-attaches, while its detach succeeds.
type compactionMonitor struct {
	prop        string
	stale       map[string]bool // client id -> holds an old generation
	pre         string
	preErr      error
	preEpoch    int64
	preHead     int64
	preAttached bool
}

func (m *compactionMonitor) docInfo(rc *RunCtx) *database.DocInfo {
	info, err := rc.W.mem.FindDocInfoByKey(context.Background(), rc.W.Projects[0].ID, docKey(0))
	if err != nil {
		return nil
	}
	return info
}

func (m *compactionMonitor) serverAttached(rc *RunCtx) bool {
	info := m.docInfo(rc)
	if info == nil {
		return false
	}
	ok, err := rc.W.mem.IsDocumentAttachedOrAttaching(context.Background(), info.RefKey(), "")
	return err == nil && ok
}

func (m *compactionMonitor) BeforeStep(rc *RunCtx, i int, st *Step) {
	info := m.docInfo(rc)
	if info == nil {
		m.preEpoch, m.preHead = -1, -1
		return
	}
	m.preEpoch, m.preHead = info.Epoch, info.ServerSeq
	if st.Op == "admin" || st.Op == "housekeeping" {
		rc.W.DrainBackground()
		m.pre, _, m.preErr = rc.ServerDoc(0)
		m.preAttached = m.serverAttached(rc)
	}
}

func isEpochMismatch(err error) bool {
	return err != nil && strings.Contains(err.Error(), "epoch mismatch")
}

func (m *compactionMonitor) AfterStep(rc *RunCtx, i int, st *Step, res *StepResult) *Violation {
	info := m.docInfo(rc)
	if info == nil || m.preEpoch < 0 {
		return nil
	}
	sc := rc.W.Client(st.C)
	id := sc.Cli.ID().String()
	switch st.Op {
	case "admin", "housekeeping":
		if st.Op == "housekeeping" && st.Flag != "compact" {
			return nil
		}
		if res.Err != nil {
			return &Violation{Property: m.prop, Oracle: "compaction_call_succeeds", Class: "compaction_failed:" + normErr(res.Err.Error()), Detail: res.Err.Error(), Step: i}
		}
		compacted := info.Epoch != m.preEpoch
		if info.Epoch < m.preEpoch {
			return &Violation{Property: m.prop, Oracle: "epoch_strictly_increases", Class: "epoch_decreased", Detail: fmt.Sprintf("%d -> %d", m.preEpoch, info.Epoch), Step: i}
		}
		forced := st.Op == "admin" && st.Flag == "force_compact"
		if compacted && !forced && m.preAttached {
			return &Violation{Property: m.prop, Oracle: "compaction_refused_while_attached", Class: "attached_document_compacted",
				Detail: "an unforced compaction went through although a client is attached or attaching", Step: i}
		}
		if !compacted {
			if forced && m.preHead > 0 && m.preErr == nil {
				return &Violation{Property: m.prop, Oracle: "forced_compaction_compacts", Class: "forced_compaction_did_nothing", Detail: res.Out, Step: i}
			}
			rc.W.probe("compaction_refused_or_skipped")
			return nil
		}
		rc.W.probe("compacted")
		if m.preErr == nil {
			after, _, err := rc.ServerDoc(0)
			if err != nil {
				return &Violation{Property: m.prop, Oracle: "compaction_keeps_content", Class: "rebuild_after_compaction_failed:" + normErr(err.Error()), Detail: err.Error(), Step: i}
			}
			if after != m.pre {
				return &Violation{Property: m.prop, Oracle: "compaction_keeps_content", Class: "compaction_changed_content",
					Detail: fmt.Sprintf("before %s\n  after %s", clip(m.pre), clip(after)), Step: i}
			}
		}
		// everybody who is attached now holds the old generation
		for _, c := range append(append([]*SimClient(nil), rc.W.Clients...), rc.W.Graveyard...) {
			if c == nil || c.Docs[0] == nil {
				continue
			}
			ci, err := rc.W.mem.FindClientInfoByRefKey(context.Background(), types.ClientRefKey{ProjectID: rc.W.Projects[c.Proj].ID, ClientID: types.IDFromActorID(c.Cli.ID())})
			if err != nil {
				continue
			}
			if di := ci.Documents[info.ID]; di != nil && di.Status == database.DocumentAttached {
				m.stale[c.Cli.ID().String()] = true
				if !c.Closed {
					rc.Excluded[c.Idx] = "holds the pre-compaction generation"
				}
			}
		}
	case "sync":
		if res.Out == "skip" || !m.stale[id] {
			return nil
		}
		rc.W.probe("stale_sync_attempted")
		if res.Err == nil && st.Flag != "push_only" {
			return &Violation{Property: m.prop, Oracle: "stale_client_refused", Class: "stale_sync_accepted",
				Detail: fmt.Sprintf("client %d still holds the pre-compaction generation but its sync succeeded", st.C), Step: i}
		}
		if info.ServerSeq != m.preHead {
			return &Violation{Property: m.prop, Oracle: "stale_client_stores_nothing", Class: "stale_sync_added_rows",
				Detail: fmt.Sprintf("client %d is stale; log head %d -> %d", st.C, m.preHead, info.ServerSeq), Step: i}
		}
		if res.Err != nil && !isEpochMismatch(res.Err) && classify(res.Err) == "err" {
			return &Violation{Property: m.prop, Oracle: "stale_client_told_to_reattach", Class: "stale_sync_failed_otherwise:" + normErr(res.Err.Error()),
				Detail: res.Err.Error(), Step: i}
		}
	case "detach":
		if res.Out == "skip" || !m.stale[id] {
			return nil
		}
		rc.W.probe("stale_detach")
		if res.Err != nil && classify(res.Err) == "err" {
			return &Violation{Property: m.prop, Oracle: "stale_detach_succeeds", Class: "stale_detach_failed:" + normErr(res.Err.Error()), Detail: res.Err.Error(), Step: i}
		}
		if info.ServerSeq != m.preHead {
			return &Violation{Property: m.prop, Oracle: "stale_client_stores_nothing", Class: "stale_detach_added_rows",
				Detail: fmt.Sprintf("log head %d -> %d", m.preHead, info.ServerSeq), Step: i}
		}
		if res.Err == nil {
			delete(m.stale, id)
			delete(rc.Excluded, st.C)
		}
	case "attach":
		if res.Err == nil {
			delete(rc.Excluded, st.C)
			// a fresh attach right after a compaction yields the compacted content
			sd := sc.Docs[0]
			if sd != nil && sd.Doc.Status() == attachable.StatusAttached && !sd.Doc.HasLocalChanges() {
				if srv, err := rc.ColdServerDoc(0); err == nil {
					rc.W.probe("fresh_attach_compared")
					if got := sd.Doc.Marshal(); got != srv {
						return &Violation{Property: m.prop, Oracle: "fresh_attach_equals_server", Class: "fresh_attach_differs",
							Detail: fmt.Sprintf("client %d attached: %s\n  server: %s", st.C, clip(got), clip(srv)), Step: i}
					}
				}
			}
		}
	case "newclient":
		delete(rc.Excluded, st.C)
	}
	return nil
}

func (m *compactionMonitor) Final(rc *RunCtx) *Violation { return nil }

// staleTap makes stale clients recover the way the SDK user would: detach,
// then attach a fresh document.
type staleTap struct{ m *compactionMonitor }

func (t staleTap) AfterStep(rc *RunCtx, i int, st *Step, res *StepResult) *Violation {
	if st.Op != "admin" && st.Op != "housekeeping" {
		return nil
	}
	s := rc.sess()
	for _, sc := range rc.W.Clients {
		if sc == nil || sc.Closed || !t.m.stale[sc.Cli.ID().String()] || s.rejoining[sc.Idx] {
			continue
		}
		s.rejoining[sc.Idx] = true
		// a stale sync first (with whatever unsent edits it holds), then recover
		if rc.R.IntN(2) == 0 {
			s.queue = append(s.queue, Step{Op: "sync", C: sc.Idx, Flag: "push_only"})
		}
		s.queue = append(s.queue, Step{Op: "sync", C: sc.Idx})
		if rc.R.IntN(3) == 0 {
			s.queue = append(s.queue, Step{Op: "sync", C: sc.Idx})
		}
		s.queue = append(s.queue, Step{Op: "detach", C: sc.Idx}, Step{Op: "attach", C: sc.Idx, Opts: rc.attachOpts(sc.Idx)})
	}
	return nil
}
func (t staleTap) Final(rc *RunCtx) *Violation { return nil }

func c10Config(r *rand.Rand) *RunConfig {
	cfg := c01Config(false)(r)
	cfg.Clients = 2 + r.IntN(3)
	cfg.SnapshotThreshold = pickN(r, []int64{3, 10, 500})
	cfg.SnapshotInterval = pickN(r, []int64{3, 10, 500})
	cfg.W["force_compact"] = 2 + r.IntN(3)
	cfg.W["compact"] = 1 + r.IntN(3)
	cfg.W["hk_compact"] = r.IntN(2)
	cfg.W["reattach"] = 1 + r.IntN(3)
	cfg.W["restart"] = r.IntN(2)
	delete(cfg.W, "vanish")
	delete(cfg.W, "rejoin")
	delete(cfg.Kinds, "dcnt")
	return cfg
}

func c10Monitors(rc *RunCtx) []Monitor {
	cm := &compactionMonitor{prop: "C10", stale: map[string]bool{}}
	allow := func(rc *RunCtx, st *Step, res *StepResult) bool {
		id := rc.W.Client(st.C).Cli.ID().String()
		return cm.stale[id] && (st.Op == "sync" || st.Op == "detach")
	}
	return []Monitor{
		&sessionTap{}, cm, staleTap{cm},
		&noFailMonitor{prop: "C10", allow: allow},
		&cloneRootMonitor{prop: "C10"},
		&convergenceMonitor{prop: "C10", server: true, midRun: false},
	}
}

func init() {
	Register(&Profile{Name: "c10_compaction", Property: "C10", Config: c10Config, Next: SessionNext, Monitors: c10Monitors,
		Nontrivial: func(rc *RunCtx) bool {
			p := rc.W.Stats.Probes
			return p["compacted"] > 0 && p["edit_applied"] >= 2
		}})
}

// ColdServerDoc rebuilds the document from storage by hand - closest stored
// snapshot plus later changes, no snapshot cache, no GC - so that the result
// does not depend on the server's caches.
func (rc *RunCtx) ColdServerDoc(d int) (string, error) {
	ctx := context.Background()
	w := rc.W
	info, err := w.mem.FindDocInfoByKey(ctx, w.Projects[0].ID, docKey(d))
	if err != nil {
		return "", err
	}
	si, err := w.mem.FindClosestSnapshotInfo(ctx, info.RefKey(), info.ServerSeq, true)
	if err != nil {
		return "", err
	}
	doc, err := document.NewInternalDocumentFromSnapshot(info.Key, si.ServerSeq, si.Lamport, si.VersionVector, si.Snapshot)
	if err != nil {
		return "", err
	}
	chs, err := w.mem.FindChangesBetweenServerSeqs(ctx, info.RefKey(), si.ServerSeq+1, info.ServerSeq)
	if err != nil {
		return "", err
	}
	if err := doc.ApplyChangePack(change.NewPack(info.Key, change.InitialCheckpoint.NextServerSeq(info.ServerSeq), chs, nil, nil), true); err != nil {
		return "", err
	}
	return doc.Marshal(), nil
}
