package sim

import (
	"context"
	"fmt"
	"math/rand/v2"
	"os"

	"github.com/yorkie-team/yorkie/api/types"
	"github.com/yorkie-team/yorkie/server/backend/database"
)

var deleteHeavy = []string{"create", "obj", "arr", "arrdel", "arrdel", "arrset", "arrmove", "nest", "text", "textdel", "textdel", "style", "cnt", "tree", "treestyle"}

func c03Config(r *rand.Rand) *RunConfig {
	cfg := &RunConfig{
		Clients:           2 + r.IntN(3),
		Docs:              1,
		Projects:          1,
		Steps:             swarmSteps(r),
		SnapshotThreshold: pickN(r, []int64{3, 10, 500, 500, 1000}),
		SnapshotInterval:  pickN(r, []int64{3, 10, 500, 1000}),
		SnapshotCacheSize: 10,
		Kinds:             swarmKinds(r, deleteHeavy, "create"),
		W:                 baseWeights(r),
		Extra:             map[string]int{"late_attach_pct": 20, "attach_presence": 30},
	}
	// one client holding unsent edits while peers sync repeatedly is what
	// advances the minimum vector past its anchors
	cfg.W["offline"] = 3 + r.IntN(5)
	cfg.W["sync"] = 30 + r.IntN(30)
	cfg.W["reattach"] = r.IntN(3)
	if r.IntN(2) == 0 {
		cfg.W["vanish"] = 1
		cfg.W["hk_deactivate"] = 2
		cfg.ClientDeactivateThreshold = "24h"
	}
	return cfg
}

// gcTwinMonitor re-executes the recorded step list in a second world in
// which garbage collection is disabled everywhere; visible content of every
// replica at quiescence and the outcome of every step must be the same.
type gcTwinMonitor struct{ prop string }

func (m *gcTwinMonitor) AfterStep(rc *RunCtx, i int, st *Step, res *StepResult) *Violation {
	if st.Op == "sync" && res.Err == nil {
		// probe: did this replica purge anything?
	}
	return nil
}

func (m *gcTwinMonitor) Final(rc *RunCtx) *Violation {
	if rc.Cfg.ClientDisableGC && rc.Cfg.ServerDisableGC {
		return nil
	}
	type snap struct {
		content string
		ok      bool
	}
	collect := func(w *World, excluded map[int]string) map[int]string {
		out := map[int]string{}
		for _, sc := range w.Clients {
			if sc == nil || sc.Closed {
				continue
			}
			if _, ex := excluded[sc.Idx]; ex {
				continue
			}
			if sd := sc.Docs[0]; sd != nil && sd.Doc.IsAttached() {
				out[sc.Idx] = sd.Doc.Marshal()
			}
		}
		return out
	}
	first := collect(rc.W, rc.Excluded)
	outs1 := append([]string(nil), rc.Outs...)

	cfg2 := *rc.Cfg
	cfg2.ClientDisableGC, cfg2.ServerDisableGC = true, true
	w1 := rc.W
	w2, err := NewWorld(&cfg2)
	if err != nil {
		curWorld = w1
		return nil
	}
	defer func() {
		w2.Close()
		curWorld = w1
	}()
	rc2 := &RunCtx{P: rc.P, Cfg: &cfg2, W: w2, R: rc.R, State: map[string]any{}, Excluded: map[int]string{}, log: newLog(false)}
	rc2.Mons = []Monitor{&sessionTap{}}
	for i := range rc.Trace {
		st := rc.Trace[i]
		sr := w2.Exec(&st)
		if drainDebug {
			fmt.Fprintf(os.Stderr, "TWIN %d %s -> %s spawned=%d\n", i, st.String(), sr.Out, w2.bgSpawned())
		}
		(&sessionTap{}).AfterStep(rc2, i, &st, &sr)
		if i < len(outs1) && sr.Out != outs1[i] {
			return &Violation{Property: m.prop, Oracle: "gc_twin_same_outcome", Class: "gc_changes_step_outcome:" + st.Op,
				Detail: fmt.Sprintf("step %d %s: with GC -> %s, without GC -> %s (%v)", i, st.String(), outs1[i], sr.Out, sr.Err), Step: i}
		}
	}
	rc2.I = len(rc.Trace)
	if v := rc2.Quiesce(); v != nil {
		// the GC-free twin must be healthy; if it is not, GC is not the cause
		// and another oracle (or property) owns the problem
		rc.W.probe("twin_not_quiescent")
		return nil
	}
	second := collect(w2, rc2.Excluded)
	rc.W.probe("gc_twin_compared")
	for c, a := range first {
		b, ok := second[c]
		if !ok {
			continue
		}
		if a != b {
			return &Violation{Property: m.prop, Oracle: "gc_twin_same_content", Class: "gc_changes_visible_content",
				Detail: fmt.Sprintf("client %d: with GC %s\n  without GC %s", c, clip(a), clip(b)), Step: rc.I}
		}
	}
	return nil
}

// housekeepingTap notices clients the server deactivated on its own and
// brings them back as new clients.
type housekeepingTap struct{}

func (housekeepingTap) AfterStep(rc *RunCtx, i int, st *Step, res *StepResult) *Violation {
	if st.Op != "housekeeping" || st.Flag != "deactivate" {
		return nil
	}
	ctx := context.Background()
	s := rc.sess()
	for _, sc := range rc.W.Clients {
		if sc == nil || sc.Closed || !sc.Cli.IsActive() {
			continue
		}
		info, err := rc.W.mem.FindClientInfoByRefKey(ctx, types.ClientRefKey{ProjectID: rc.W.Projects[sc.Proj].ID, ClientID: types.IDFromActorID(sc.Cli.ID())})
		if err != nil || info.Status != database.ClientDeactivated {
			continue
		}
		rc.W.probe("housekeeping_deactivated_live_client")
		rc.Excluded[sc.Idx] = "deactivated by housekeeping"
		// The SDK does not know yet. In the session model the user reloads:
		// a new client takes the slot.
		if !s.rejoining[sc.Idx] {
			s.rejoining[sc.Idx] = true
			s.queue = append(s.queue, Step{Op: "newclient", C: sc.Idx})
			s.enqueueJoin(rc, sc.Idx)
		}
	}
	return nil
}
func (housekeepingTap) Final(rc *RunCtx) *Violation { return nil }

func c03Monitors(rc *RunCtx) []Monitor {
	return append(append([]Monitor{housekeepingTap{}}, sessionMonitors("C03", true)(rc)...), &gcTwinMonitor{prop: "C03"})
}

func nontrivialGC(rc *RunCtx) bool {
	p := rc.W.Stats.Probes
	return p["gc_twin_compared"] > 0 && p["client_gc_purged"] > 0 && p["final_replicas_compared"] > 0
}

func init() {
	Register(&Profile{Name: "c03_gc_twin", Property: "C03", Config: c03Config, Next: SessionNext,
		Monitors: c03Monitors, Nontrivial: nontrivialGC})
}
