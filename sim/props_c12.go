package sim

import (
	"context"
	"fmt"
	"math/rand/v2"
	"sort"

	"github.com/yorkie-team/yorkie/api/converter"
	"github.com/yorkie-team/yorkie/api/types"
	"github.com/yorkie-team/yorkie/server/backend/database"
)

// presenceMonitor: at quiescence every replica sees the same presence data,
// for exactly the participants the server counts as attached; on a document
// created with presence disabled nothing presence-related is ever stored,
// returned or put into a snapshot.
type presenceMonitor struct {
	prop string
	rc   *RunCtx
	viol *Violation
}

func (m *presenceMonitor) fail(oracle, class, detail string) {
	if m.viol == nil {
		m.viol = &Violation{Property: m.prop, Oracle: oracle, Class: class, Detail: detail, Step: m.rc.I}
	}
}

func (m *presenceMonitor) presenceless() (bool, bool) {
	w := m.rc.W
	info, err := w.mem.FindDocInfoByKey(context.Background(), w.Projects[0].ID, docKey(0))
	if err != nil {
		return false, false
	}
	return info.DisablePresence, true
}

func (m *presenceMonitor) tap(ev *WireEvent) {
	if !ev.OK || ev.Resp == nil {
		return
	}
	off, known := m.presenceless()
	if !known || !off {
		return
	}
	m.rc.W.probe("presenceless_response_checked")
	for _, c := range ev.Resp.Changes {
		if c.PresenceChange() != nil {
			m.fail("presenceless_response_has_no_presence", "presence_in_response_of_presenceless_doc",
				fmt.Sprintf("response to client %d carries a presence change (serverSeq %d)", ev.Client, c.ServerSeq()))
		}
	}
	if len(ev.Resp.Snapshot) > 0 {
		_, presences, err := converter.BytesToSnapshot(ev.Resp.Snapshot)
		if err == nil && presences != nil && len(presences.ToMap()) > 0 {
			m.fail("presenceless_snapshot_has_no_presence", "presence_in_snapshot_of_presenceless_doc",
				fmt.Sprintf("snapshot sent to client %d carries presences of %d actors", ev.Client, len(presences.ToMap())))
		}
	}
}

func (m *presenceMonitor) AfterStep(rc *RunCtx, i int, st *Step, res *StepResult) *Violation {
	return m.viol
}

func (m *presenceMonitor) Final(rc *RunCtx) *Violation {
	if m.viol != nil {
		return m.viol
	}
	w := rc.W
	ctx := context.Background()
	info, err := w.mem.FindDocInfoByKey(ctx, w.Projects[0].ID, docKey(0))
	if err != nil {
		return nil
	}
	if info.DisablePresence {
		infos, err := w.mem.FindChangeInfosBetweenServerSeqs(ctx, info.RefKey(), 1, info.ServerSeq)
		if err == nil {
			for _, ci := range infos {
				if ci.PresenceChange != nil {
					return &Violation{Property: m.prop, Oracle: "presenceless_log_has_no_presence", Class: "presence_stored_for_presenceless_doc",
						Detail: fmt.Sprintf("stored change serverSeq %d carries presence", ci.ServerSeq), Step: rc.I}
				}
				if len(ci.Operations) == 0 {
					return &Violation{Property: m.prop, Oracle: "presenceless_log_has_no_presence", Class: "presence_only_row_for_presenceless_doc",
						Detail: fmt.Sprintf("stored change serverSeq %d has no operations", ci.ServerSeq), Step: rc.I}
				}
			}
			rc.W.probe("presenceless_log_checked")
		}
		for _, sc := range rc.AttachedReplicas(0) {
			if n := len(sc.Docs[0].Doc.AllPresences()); n > 0 {
				return &Violation{Property: m.prop, Oracle: "presenceless_replica_has_no_presence", Class: "presence_on_replica_of_presenceless_doc",
					Detail: fmt.Sprintf("client %d shows presences of %d actors", sc.Idx, n), Step: rc.I}
			}
		}
		return nil
	}
	// who does the server count as attached?
	expected := map[string]bool{}
	all := append([]*SimClient(nil), w.Clients...)
	all = append(all, w.Graveyard...)
	for _, sc := range all {
		if sc == nil || sc.Docs[0] == nil {
			continue
		}
		if sc.Docs[0].Opts.NoPresence {
			continue // attached without initialising a presence: legitimately absent
		}
		ci, err := w.mem.FindClientInfoByRefKey(ctx, types.ClientRefKey{ProjectID: w.Projects[sc.Proj].ID, ClientID: types.IDFromActorID(sc.Cli.ID())})
		if err != nil || ci.Status != database.ClientActivated {
			continue
		}
		if di := ci.Documents[info.ID]; di != nil && di.Status == database.DocumentAttached {
			expected[sc.Cli.ID().String()] = true
		}
	}
	var want []string
	for k := range expected {
		want = append(want, k)
	}
	sort.Strings(want)
	reps := rc.AttachedReplicas(0)
	var ref string
	for k, sc := range reps {
		ps := sc.Docs[0].Doc.AllPresences()
		var keys []string
		for a := range ps {
			keys = append(keys, a)
		}
		sort.Strings(keys)
		rc.W.probe("presence_compared")
		if fmt.Sprint(keys) != fmt.Sprint(want) {
			return &Violation{Property: m.prop, Oracle: "presence_of_exactly_the_attached", Class: "presence_participants_differ_from_attached",
				Detail: fmt.Sprintf("client %d sees presences of %s, attached are %s", sc.Idx, rankVV(rc, fmt.Sprint(keys)), rankVV(rc, fmt.Sprint(want))), Step: rc.I}
		}
		s := ""
		for _, a := range keys {
			d := ps[a]
			var ks []string
			for kk := range d {
				ks = append(ks, kk)
			}
			sort.Strings(ks)
			s += a + "{"
			for _, kk := range ks {
				s += kk + "=" + d[kk] + ","
			}
			s += "}"
		}
		if k == 0 {
			ref = s
		} else if s != ref {
			return &Violation{Property: m.prop, Oracle: "presence_converges", Class: "presence_diverged",
				Detail: fmt.Sprintf("client %d: %s\n  client %d: %s", reps[0].Idx, rankVV(rc, ref), sc.Idx, rankVV(rc, s)), Step: rc.I}
		}
	}
	return nil
}

func c12Config(presenceless bool) func(r *rand.Rand) *RunConfig {
	return func(r *rand.Rand) *RunConfig {
		cfg := c01Config(r.IntN(2) == 0)(r)
		cfg.SnapshotThreshold = pickN(r, []int64{2, 3, 5, 10, 500})
		cfg.SnapshotInterval = pickN(r, []int64{2, 5, 10, 500})
		cfg.Kinds["presence"] = 20 + r.IntN(40)
		cfg.W["reattach"] = r.IntN(2)
		cfg.W["rejoin"] = 1 + r.IntN(2)
		cfg.W["vanish"] = r.IntN(2)
		cfg.Extra["attach_presence"] = 70
		cfg.Extra["late_attach_pct"] = 50
		if r.IntN(2) == 0 {
			cfg.W["hk_deactivate"] = 1
			cfg.ClientDeactivateThreshold = "24h"
		}
		if presenceless {
			cfg.Extra["no_presence_first"] = 1
			cfg.Extra["no_presence_later_pct"] = 20
		} else if r.IntN(4) == 0 {
			cfg.Extra["no_presence_later_pct"] = 30 // late attachers that disagree with the document
		}
		return cfg
	}
}

func c12Monitors(rc *RunCtx) []Monitor {
	pm := &presenceMonitor{prop: "C12", rc: rc}
	rc.W.wireTaps = append(rc.W.wireTaps, pm.tap)
	return append(append([]Monitor{housekeepingTap{}}, sessionMonitors("C12", false)(rc)...), pm)
}

func init() {
	Register(&Profile{Name: "c12_presence", Property: "C12", Config: c12Config(false), Next: SessionNext,
		Monitors: c12Monitors, Nontrivial: func(rc *RunCtx) bool {
			return rc.W.Stats.Probes["presence_compared"] >= 2 && rc.W.Stats.Probes["edit_applied"] > 0
		}})
	Register(&Profile{Name: "c12_presenceless", Property: "C12", Config: c12Config(true), Next: SessionNext,
		Monitors: c12Monitors, Nontrivial: func(rc *RunCtx) bool {
			return rc.W.Stats.Probes["presenceless_log_checked"] > 0 && rc.W.Stats.Probes["presenceless_response_checked"] >= 2
		}})
}
