package sim

import (
	"fmt"
	"math/rand/v2"
	"sort"
	"strings"

	"github.com/yorkie-team/yorkie/pkg/document/crdt"
)

// canon renders visible content independent of internal chunking: text as
// attribute runs over the concatenated string, trees as XML.
func canon(e crdt.Element) string {
	switch t := e.(type) {
	case *crdt.Object:
		ms := t.Members()
		keys := make([]string, 0, len(ms))
		for k := range ms {
			keys = append(keys, k)
		}
		sort.Strings(keys)
		var sb strings.Builder
		sb.WriteString("{")
		for _, k := range keys {
			fmt.Fprintf(&sb, "%q:%s,", k, canon(ms[k]))
		}
		sb.WriteString("}")
		return sb.String()
	case *crdt.Array:
		var sb strings.Builder
		sb.WriteString("[")
		for _, el := range t.Elements() {
			sb.WriteString(canon(el) + ",")
		}
		sb.WriteString("]")
		return sb.String()
	case *crdt.Text:
		var sb strings.Builder
		sb.WriteString("T(")
		lastAttrs := "\x00"
		for _, n := range t.Nodes() {
			if n.RemovedAt() != nil || n.Len() == 0 {
				continue
			}
			v := n.Value()
			attrs := v.Attrs().Marshal()
			if attrs != lastAttrs {
				sb.WriteString("|" + attrs + ":")
				lastAttrs = attrs
			}
			sb.WriteString(v.Value())
		}
		sb.WriteString(")")
		return sb.String()
	case *crdt.Tree:
		return "X(" + t.ToXML() + ")"
	default:
		return e.Marshal()
	}
}

// undoMonitor: on a replica that receives no remote changes, k undos bring
// back the content recorded k history entries earlier and redos bring the
// undone content back, to any depth.
type undoMonitor struct {
	prop string
	hist map[string]*undoHist
	pre  int
	preC string
}

type undoHist struct {
	contents []string
	exact    []bool // entry i (the edit leading to contents[i]) is a content edit whose undo is exact
	pos      int
}

func (m *undoMonitor) key(rc *RunCtx, c int) (string, *SimDoc) {
	sc := rc.W.Client(c)
	sd := sc.Docs[0]
	if sd == nil {
		return "", nil
	}
	return fmt.Sprintf("%d/%d/%d", c, sc.Gen, sd.Gen), sd
}

func exactKinds(st *Step) bool {
	for _, e := range st.Edits {
		switch e.K {
		case "o.set", "o.del", "o.new", "a.add", "a.ins", "a.del", "a.new", "t.edit", "c.inc", "r.tins", "r.tdel", "r.eins", "r.edel":
			if e.K == "t.edit" && len(e.A) > 0 {
				return false
			}
		default:
			return false
		}
	}
	return true
}

func (m *undoMonitor) BeforeStep(rc *RunCtx, i int, st *Step) {
	m.pre = -1
	if st.Op != "update" {
		return
	}
	if _, sd := m.key(rc, st.C); sd != nil {
		m.pre = sd.Doc.UndoStackLenForTest()
		m.preC = canon(sd.Doc.RootObject())
	}
}

func (m *undoMonitor) AfterStep(rc *RunCtx, i int, st *Step, res *StepResult) *Violation {
	k, sd := m.key(rc, st.C)
	if sd == nil {
		return nil
	}
	h := m.hist[k]
	cur := canon(sd.Doc.RootObject())
	reset := func() { m.hist[k] = &undoHist{contents: []string{cur}, exact: []bool{true}} }
	switch st.Op {
	case "attach", "sync", "detach":
		if st.Op == "sync" && rc.Cfg.Clients == 1 && rc.Cfg.Extra["undo_across_sync"] == 1 && h != nil {
			// The only client of the document: a sync delivers no remote
			// change, it only acknowledges (and lets the replica's garbage
			// collector purge) the client's own tombstones. The history
			// stays valid, and the sync must not change the content.
			rc.W.probe("undo_history_kept_across_sync")
			if res.Err == nil && cur != h.contents[h.pos] {
				return &Violation{Property: m.prop, Oracle: "sole_client_sync_keeps_content", Class: "content_changed_by_sync_without_remote_changes",
					Detail: fmt.Sprintf("client %d after sync: %s\n  before: %s", st.C, clip(cur), clip(h.contents[h.pos])), Step: i}
			}
			return nil
		}
		reset() // a remote change may have been applied: outside the quantifier
	case "update":
		if h == nil {
			reset()
			h = m.hist[k]
			h.contents[0] = m.preC
		}
		if res.Out != "ok" || m.pre < 0 {
			if res.Out != "ok" && res.Out != "noop" {
				reset()
			}
			return nil
		}
		if sd.Doc.UndoStackLenForTest() == m.pre+1 {
			h.contents = append(h.contents[:h.pos+1], cur)
			h.exact = append(h.exact[:h.pos+1], exactKinds(st))
			h.pos++
		} else if cur != m.preC {
			// content changed without a history entry (or the stack was capped): start over
			reset()
		}
	case "undo":
		if res.Out == "skip" {
			return nil
		}
		if h == nil || h.pos == 0 {
			reset()
			return nil
		}
		want, exact := h.contents[h.pos-1], h.exact[h.pos]
		h.pos--
		rc.W.probe("undo_checked")
		if exact && res.Err == nil && cur != want {
			return &Violation{Property: m.prop, Oracle: "undo_restores_previous_content", Class: "undo_content_mismatch",
				Detail: fmt.Sprintf("client %d after undo: %s\n  recorded before the edit: %s", st.C, clip(cur), clip(want)), Step: i}
		}
		if !exact {
			// an approximate restoration: what lies deeper was recorded under
			// the assumption of exact restoration and can no longer be asserted
			h.contents[h.pos] = cur
			for k := range h.exact {
				h.exact[k] = false
			}
		}
	case "redo":
		if res.Out == "skip" {
			return nil
		}
		if h == nil || h.pos+1 >= len(h.contents) {
			reset()
			return nil
		}
		want, exact := h.contents[h.pos+1], h.exact[h.pos+1]
		h.pos++
		rc.W.probe("redo_checked")
		if exact && res.Err == nil && cur != want {
			return &Violation{Property: m.prop, Oracle: "redo_restores_undone_content", Class: "redo_content_mismatch",
				Detail: fmt.Sprintf("client %d after redo: %s\n  recorded after the edit: %s", st.C, clip(cur), clip(want)), Step: i}
		}
		if !exact {
			h.contents[h.pos] = cur
			for k := range h.exact {
				h.exact[k] = false
			}
		}
	}
	return nil
}

func (m *undoMonitor) Final(rc *RunCtx) *Violation { return nil }

var c14Kinds = []string{"create", "obj", "arr", "arrdel", "nest", "text", "textdel", "cnt", "tree"}

func c14Config(approx bool) func(r *rand.Rand) *RunConfig {
	return func(r *rand.Rand) *RunConfig {
		cfg := &RunConfig{
			Clients:           1,
			Docs:              1,
			Projects:          1,
			Steps:             swarmSteps(r),
			SnapshotThreshold: pickN(r, []int64{3, 10, 500}),
			SnapshotInterval:  pickN(r, []int64{3, 10, 500}),
			SnapshotCacheSize: 10,
			Kinds:             swarmKinds(r, c14Kinds, "create"),
			W:                 map[string]int{"update": 50, "undo": 15 + r.IntN(15), "redo": 8 + r.IntN(10)},
			Extra:             map[string]int{"attach_presence": 30, "single_edit_updates": 1},
		}
		delete(cfg.Kinds, "treepath")
		delete(cfg.Kinds, "utf16") // splitting a surrogate pair is not a valid edit to undo
		cfg.Kinds["tree_noedel"] = 0
		if approx {
			for _, k := range []string{"style", "arrmove", "arrset", "treestyle"} {
				cfg.Kinds[k] = 2 + r.IntN(5)
			}
		}
		return cfg
	}
}

// c14GCConfig: the sole client also synchronises between edits, undos and
// redos. No remote change exists, so the property's quantifier still holds,
// but every acknowledged deletion is purged by the replica's own garbage
// collector: Undo/Redo must then recreate content instead of reviving a
// tombstone.
func c14GCConfig(r *rand.Rand) *RunConfig {
	cfg := c14Config(false)(r)
	cfg.W["sync"] = 8 + r.IntN(20)
	cfg.Extra["undo_across_sync"] = 1
	return cfg
}

func c14Monitors(rc *RunCtx) []Monitor {
	return []Monitor{
		&sessionTap{},
		&noFailMonitor{prop: "C14"},
		&undoMonitor{prop: "C14", hist: map[string]*undoHist{}},
		&cloneRootMonitor{prop: "C14"},
		&convergenceMonitor{prop: "C14", server: false, midRun: false},
	}
}

func c15Config(r *rand.Rand) *RunConfig {
	cfg := c14Config(r.IntN(2) == 0)(r)
	cfg.Clients = 2 + r.IntN(2)
	cfg.Extra["single_edit_updates"] = 1
	cfg.W["sync"] = 20 + r.IntN(25)
	cfg.W["undo"] = 6 + r.IntN(10)
	cfg.W["redo"] = 3 + r.IntN(8)
	cfg.W["offline"] = r.IntN(4)
	if r.IntN(2) == 0 {
		cfg.ClientDisableGC, cfg.ServerDisableGC = true, true
	}
	return cfg
}

func c15Monitors(rc *RunCtx) []Monitor {
	return []Monitor{
		&sessionTap{},
		&noFailMonitor{prop: "C15"},
		&cloneRootMonitor{prop: "C15"},
		&convergenceMonitor{prop: "C15", server: true, midRun: true},
	}
}

func undoNontrivial(rc *RunCtx) bool {
	p := rc.W.Stats.Probes
	return p["undo_checked"] > 0 && p["edit_applied"] >= 2
}

func init() {
	Register(&Profile{Name: "c14_undo_exact", Property: "C14", Config: c14Config(false), Next: SessionNext, Monitors: c14Monitors, Nontrivial: undoNontrivial})
	Register(&Profile{Name: "c14_undo_approx", Property: "C14", Config: c14Config(true), Next: SessionNext, Monitors: c14Monitors, Nontrivial: undoNontrivial})
	Register(&Profile{Name: "c14_undo_gc", Property: "C14", Config: c14GCConfig, Next: SessionNext, Monitors: c14Monitors,
		Nontrivial: func(rc *RunCtx) bool {
			p := rc.W.Stats.Probes
			return undoNontrivial(rc) && p["undo_history_kept_across_sync"] > 0
		}})
	Register(&Profile{Name: "c15_undo_sync", Property: "C15", Config: c15Config, Next: SessionNext, Monitors: c15Monitors,
		Nontrivial: func(rc *RunCtx) bool {
			p := rc.W.Stats.Probes
			return p["undo_done"] > 0 && p["final_replicas_compared"] > 0 && p["remote_change_applied"] > 0
		}})
}
