package sim

import (
	"context"
	"fmt"
	"math/rand/v2"
)

// deliveryMonitor checks, on the wire, that every pull hands a client
// exactly the stored changes of the range between the checkpoint it sent and
// the checkpoint it gets back - all of them, in order, each once, and never an
// echo of a change the replica made itself - and that checkpoints are
// monotone and never exceed the log head.
type deliveryMonitor struct {
	prop   string
	rc     *RunCtx
	viol   *Violation
	own    map[string]map[int64]bool // replica -> lamports of its own changes
	ownSeq map[string]map[int64]bool // replica -> serverSeqs of the changes it pushed
	head   int64
	last   map[string][2]int64 // replica -> last applied response checkpoint
	// byActor: requests run concurrently (step-level engine), so "what this request
	// stored" cannot be read off the growth of the log; the replica's own changes are
	// recognised by their author instead, and the comparison with the stored log is
	// made when the response arrives (the log below a response checkpoint is final).
	byActor bool
}

func (m *deliveryMonitor) fail(oracle, class, detail string) {
	if m.viol == nil {
		m.viol = &Violation{Property: m.prop, Oracle: oracle, Class: class, Detail: detail, Step: m.rc.I}
	}
}

func (m *deliveryMonitor) tap(ev *WireEvent) {
	if ev.Req == nil {
		return
	}
	rc := m.rc
	w := rc.W
	sc := w.Client(ev.Client)
	var key string
	if sc.Cli.ID().String() == ev.ClientID && sc.Docs[0] != nil {
		key = fmt.Sprintf("%s/%d", ev.ClientID, sc.Docs[0].Gen)
		if m.own[key] == nil {
			m.own[key] = map[int64]bool{}
		}
		for _, c := range ev.Req.Changes {
			if c.ID().HasClocks() {
				m.own[key][c.ID().Lamport()] = true
			}
		}
	}
	if !ev.OK || ev.Resp == nil || ev.DocID == "" {
		return
	}
	ctx := context.Background()
	info, err := w.mem.FindDocInfoByKey(ctx, w.Projects[0].ID, docKey(0))
	if err != nil {
		return
	}
	// what this request stored is this replica's own (requests are sequential
	// in this engine, so the log grew by exactly this request's changes)
	if m.byActor {
		if info.ServerSeq > m.head {
			m.head = info.ServerSeq
		}
	} else if info.ServerSeq > m.head {
		if key != "" {
			if m.ownSeq[key] == nil {
				m.ownSeq[key] = map[int64]bool{}
			}
			for s := m.head + 1; s <= info.ServerSeq; s++ {
				m.ownSeq[key][s] = true
			}
		}
		m.head = info.ServerSeq
	}
	reqCP, respCP := ev.Req.Checkpoint, ev.Resp.Checkpoint
	rc.W.probe("delivery_checked")
	if respCP.ServerSeq > info.ServerSeq {
		m.fail("checkpoint_not_beyond_head", "response_checkpoint_exceeds_head", fmt.Sprintf("client %d: response checkpoint %s but log head is %d", ev.Client, respCP.String(), info.ServerSeq))
	}
	if respCP.ServerSeq < reqCP.ServerSeq || respCP.ClientSeq < reqCP.ClientSeq {
		m.fail("checkpoint_monotone", "response_checkpoint_went_backwards", fmt.Sprintf("client %d: sent %s, got %s", ev.Client, reqCP.String(), respCP.String()))
	}
	if key != "" && !ev.Lost && !ev.Stale {
		if prev, ok := m.last[key]; ok && (respCP.ServerSeq < prev[0] || int64(respCP.ClientSeq) < prev[1]) {
			m.fail("checkpoint_monotone", "checkpoint_below_earlier_response", fmt.Sprintf("client %d: got %s after (%d,%d)", ev.Client, respCP.String(), prev[0], prev[1]))
		}
		m.last[key] = [2]int64{respCP.ServerSeq, int64(respCP.ClientSeq)}
	}
	if len(ev.Resp.Snapshot) > 0 {
		return // a snapshot replaces the range; C02 owns its content
	}
	// in order, strictly increasing, inside the range
	var got []int64
	prevSeq := reqCP.ServerSeq
	for _, c := range ev.Resp.Changes {
		s := c.ServerSeq()
		if s <= prevSeq {
			m.fail("delivered_in_order_once", "delivery_out_of_order_or_repeated", fmt.Sprintf("client %d: change serverSeq %d after %d (request checkpoint %d)", ev.Client, s, prevSeq, reqCP.ServerSeq))
		}
		if s > respCP.ServerSeq {
			m.fail("delivered_in_order_once", "delivery_beyond_checkpoint", fmt.Sprintf("client %d: change serverSeq %d beyond response checkpoint %d", ev.Client, s, respCP.ServerSeq))
		}
		prevSeq = s
		got = append(got, s)
		if key != "" && c.ID().ActorID().String() == ev.ClientID && c.ID().HasClocks() && m.own[key][c.ID().Lamport()] {
			m.fail("no_echo_of_own_change", "own_change_echoed", fmt.Sprintf("client %d received its own change (serverSeq %d, clientSeq %d)", ev.Client, s, c.ClientSeq()))
		}
	}
	if ev.PushOnly || key == "" || ev.Stale {
		return
	}
	// completeness against the stored log
	if respCP.ServerSeq > reqCP.ServerSeq {
		infos, err := w.mem.FindChangeInfosBetweenServerSeqs(ctx, info.RefKey(), reqCP.ServerSeq+1, respCP.ServerSeq)
		if err != nil {
			return
		}
		var want []int64
		optional := map[int64]bool{}
		for _, ci := range infos {
			if m.ownSeq[key][ci.ServerSeq] {
				continue // the replica's own change
			}
			if m.byActor && ci.ActorID.String() == ev.ClientID {
				// its own change, or one of an earlier attachment of this client
				// (re-attachment by the same client has its own finding)
				optional[ci.ServerSeq] = true
				continue
			}
			if ci.ActorID.String() == ev.ClientID && len(ci.Operations) == 0 {
				// presence-only change of an earlier attachment of this very
				// client: carries no content; delivering it or not is equally fine
				optional[ci.ServerSeq] = true
				continue
			}
			if info.DisablePresence && len(ci.Operations) == 0 {
				continue
			}
			want = append(want, ci.ServerSeq)
		}
		var gotReq []int64
		for _, s := range got {
			if !optional[s] {
				gotReq = append(gotReq, s)
			}
		}
		got = gotReq
		if fmt.Sprint(want) != fmt.Sprint(got) {
			m.fail("every_change_delivered_exactly_once", "delivered_changes_differ_from_log_range",
				fmt.Sprintf("client %d pulled (%d, %d]: log holds foreign changes %v, response carried %v", ev.Client, reqCP.ServerSeq, respCP.ServerSeq, want, got))
		}
	}
}

func (m *deliveryMonitor) AfterStep(rc *RunCtx, i int, st *Step, res *StepResult) *Violation {
	if m.viol != nil {
		return m.viol
	}
	// whatever other requests (deactivation, stale duplicates, housekeeping)
	// stored is not the next requester's own
	if info, err := rc.W.mem.FindDocInfoByKey(context.Background(), rc.W.Projects[0].ID, docKey(0)); err == nil && info.ServerSeq > m.head {
		m.head = info.ServerSeq
	}
	// the replica's own checkpoint is what the last applied response said
	if (st.Op == "sync" || st.Op == "attach") && res.Err == nil {
		sc := rc.W.Client(st.C)
		if sd := sc.Docs[0]; sd != nil {
			key := fmt.Sprintf("%s/%d", sc.Cli.ID().String(), sd.Gen)
			if last, ok := m.last[key]; ok {
				cp := sd.Doc.Checkpoint()
				if cp.ServerSeq != last[0] {
					return &Violation{Property: m.prop, Oracle: "client_checkpoint_follows_response", Class: "client_checkpoint_differs_from_response",
						Detail: fmt.Sprintf("client %d holds checkpoint %s, last response said serverSeq %d", st.C, cp.String(), last[0]), Step: i}
				}
			}
		}
	}
	return nil
}

func (m *deliveryMonitor) Final(rc *RunCtx) *Violation { return m.viol }

func c04Config(r *rand.Rand) *RunConfig {
	cfg := c01Config(r.IntN(2) == 0)(r)
	cfg.SnapshotThreshold = pickN(r, []int64{3, 10, 500, 1000})
	cfg.SnapshotInterval = pickN(r, []int64{3, 10, 500})
	cfg.W["push_only"] = 2 + r.IntN(6)
	cfg.W["reattach"] = 1 + r.IntN(3)
	cfg.W["sync"] = 30 + r.IntN(30)
	cfg.Kinds["presence"] = 10 * r.IntN(3)
	// deactivation (and its server-made detach change, possibly running as a
	// background task inside somebody else's request) belongs to C11; here
	// every stored change comes from a document RPC of its author
	delete(cfg.W, "rejoin")
	delete(cfg.W, "vanish")
	return cfg
}

func c04Monitors(rc *RunCtx) []Monitor {
	dm := &deliveryMonitor{prop: "C04", rc: rc, own: map[string]map[int64]bool{}, ownSeq: map[string]map[int64]bool{}, last: map[string][2]int64{}}
	rc.W.wireTaps = append(rc.W.wireTaps, dm.tap)
	return []Monitor{
		&sessionTap{},
		&noFailMonitor{prop: "C04"},
		dm,
		&logShapeMonitor{prop: "C04", perAttach: true},
		&convergenceMonitor{prop: "C04", server: false, midRun: false},
	}
}

func init() {
	Register(&Profile{Name: "c04_sequential", Property: "C04", Config: c04Config, Next: SessionNext,
		Monitors: c04Monitors, Nontrivial: func(rc *RunCtx) bool {
			p := rc.W.Stats.Probes
			return p["delivery_checked"] >= 4 && p["log_shape_checked"] > 0 && p["remote_change_applied"] > 0
		}})
}
