package sim

import (
	"context"
	"errors"
	"fmt"
	"reflect"
	"sort"
	"strings"
	gotime "time"
	"unsafe"

	"go.uber.org/zap"

	"github.com/yorkie-team/yorkie/client"
	"github.com/yorkie-team/yorkie/pkg/attachable"
	"github.com/yorkie-team/yorkie/pkg/document"
	yjson "github.com/yorkie-team/yorkie/pkg/document/json"
	"github.com/yorkie-team/yorkie/pkg/document/presence"
	"github.com/yorkie-team/yorkie/pkg/document/yson"
	"github.com/yorkie-team/yorkie/pkg/key"
	"github.com/yorkie-team/yorkie/server/backend/database"
	"github.com/yorkie-team/yorkie/server/clients"
	"github.com/yorkie-team/yorkie/server/documents"
)

// RunConfig is the swarm configuration of one run; everything in it is drawn
// from the seed (or read from a replay file).
type RunConfig struct {
	Profile   string `json:"profile"`
	Property  string `json:"property,omitempty"`
	Clients   int    `json:"clients"`
	Docs      int    `json:"docs"`
	Projects  int    `json:"projects"`
	Steps     int    `json:"steps"`
	Trace     bool   `json:"trace,omitempty"`
	NoParking bool   `json:"no_parking,omitempty"`

	SnapshotThreshold         int64  `json:"snapshot_threshold"`
	SnapshotInterval          int64  `json:"snapshot_interval"`
	SnapshotCacheSize         int    `json:"snapshot_cache_size"`
	ServerDisableGC           bool   `json:"server_disable_gc,omitempty"`
	ClientDisableGC           bool   `json:"client_disable_gc,omitempty"`
	ClientDeactivateThreshold string `json:"client_deactivate_threshold,omitempty"`
	AutoRevision              bool   `json:"auto_revision,omitempty"`
	RemoveOnDetach            bool   `json:"remove_on_detach,omitempty"`

	// generator knobs
	Kinds      map[string]int `json:"kinds,omitempty"`   // weights of edit families
	W          map[string]int `json:"weights,omitempty"` // weights of step kinds
	FaultKinds []string       `json:"fault_kinds,omitempty"`
	FaultRate  int            `json:"fault_rate,omitempty"` // per mille of RPC steps
	BGPolicy   string         `json:"bg_policy,omitempty"`  // eager | lazy | starved
	Extra      map[string]int `json:"extra,omitempty"`
}

// SimDoc is one client's replica of one document.
type SimDoc struct {
	Doc  *document.Document
	Key  key.Key
	Opts AttachOp
	// Gen counts Document instances created for this (client, doc) slot.
	Gen int
}

// SimClient is one simulated SDK client.
type SimClient struct {
	Idx    int
	Gen    int
	Key    string
	Proj   int
	Cli    *client.Client
	Docs   map[int]*SimDoc
	Closed bool
}

func docKey(d int) key.Key { return key.Key(fmt.Sprintf("doc-%d", d)) }

func (w *World) newClient(idx int, proj int) (*SimClient, error) {
	var gen int
	if idx < len(w.Clients) && w.Clients[idx] != nil {
		gen = w.Clients[idx].Gen + 1
	}
	k := fmt.Sprintf("cli-%d-%d", idx, gen)
	cli, err := client.New(
		client.WithAPIKey(w.Projects[proj].PublicKey),
		client.WithLogger(zap.NewNop()),
		client.WithSyncLoopDuration(1000*gotime.Hour),
		func(o *client.Options) { o.Key = k },
	)
	if err != nil {
		return nil, err
	}
	if err := cli.Dial("sim.invalid:1"); err != nil {
		return nil, err
	}
	return &SimClient{Idx: idx, Gen: gen, Key: k, Proj: proj, Cli: cli, Docs: map[int]*SimDoc{}}, nil
}

// Client returns the client in slot c, creating it on first use.
func (w *World) Client(c int) *SimClient {
	for len(w.Clients) <= c {
		w.Clients = append(w.Clients, nil)
	}
	if w.Clients[c] == nil {
		sc, err := w.newClient(c, mod(c, 1))
		if err != nil {
			panic(err)
		}
		w.Clients[c] = sc
	}
	return w.Clients[c]
}

func (sc *SimClient) newDoc(d int, w *World, op *AttachOp) *SimDoc {
	var opts []document.Option
	if w.Cfg.ClientDisableGC || (op != nil && op.LocalNoGC) {
		opts = append(opts, document.WithDisableGC())
	}
	if op != nil && op.NoPresence {
		opts = append(opts, document.WithDisablePresence())
	}
	sd := &SimDoc{Doc: document.New(docKey(d), opts...), Key: docKey(d)}
	if old := sc.Docs[d]; old != nil {
		sd.Gen = old.Gen + 1
	}
	if op != nil {
		sd.Opts = *op
	}
	sc.Docs[d] = sd
	return sd
}

// StepResult is what executing a step produced; it goes into the event log.
type StepResult struct {
	Out     string // ok | skip | err:<class> | ...
	Err     error
	Applied int // edits applied
	RPC     *RPCRecord
	Sub     []StepResult // results of the sub-steps of a parallel section
	Viol    *Violation   // raised by the step-level scheduler (deadlock, lock order, ...)
}

// classify maps an error returned to a client call to a coarse class.
func classify(err error) string {
	if err == nil {
		return "ok"
	}
	switch {
	case errors.Is(err, ErrNetDropped):
		return "net"
	case errors.Is(err, ErrCrashed):
		return "crash"
	}
	s := err.Error()
	if strings.Contains(s, ErrInjected.Error()) {
		return "injected"
	}
	if strings.Contains(s, ErrNetDropped.Error()) {
		return "net"
	}
	if strings.Contains(s, ErrCrashed.Error()) {
		return "crash"
	}
	return "err"
}

// Exec executes one step. It never draws from a PRNG.
func (w *World) Exec(st *Step) (res StepResult) {
	res.Out = "ok"
	if st.Op == "par" {
		return w.execPar(st)
	}
	nRPC := len(w.RPCs)
	inPar := w.Sched != nil
	defer func() {
		if inPar {
			return // plans, restarts and RPC attribution belong to the sequential engine
		}
		if len(w.RPCs) > nRPC {
			res.RPC = w.RPCs[nRPC]
		}
		// leftovers of plans that did not match anything must not leak into
		// the next step
		w.netPlan = nil
		w.dbPlan = nil
		if w.gen.dead {
			if err := w.Restart(); err != nil {
				panic(err)
			}
			w.probe("crash_restart")
		}
	}()
	isRPC := false
	switch st.Op {
	case "activate", "deactivate", "attach", "detach", "remove", "sync":
		isRPC = true
	}
	if isRPC && !inPar {
		if st.Net != "" {
			w.netPlan = &NetFault{Kind: st.Net, Seed: st.I}
		}
		if st.DB != nil {
			f := *st.DB
			w.dbPlan = []*DBFault{&f}
		}
		if !inPar {
			w.curCli = st.C
		}
	}
	ctx := w.ctxFor(st)

	switch st.Op {
	case "activate":
		sc := w.Client(st.C)
		var err error
		if w.RunFG(func() { err = sc.Cli.Activate(ctx) }) {
			return StepResult{Out: "hang"}
		}
		res.Err = err
		res.Out = classify(err)
		if err == nil {
			name := fmt.Sprintf("c%d", sc.Idx)
			if sc.Gen > 0 {
				name = fmt.Sprintf("c%d.%d", sc.Idx, sc.Gen)
			}
			w.ActorNames[sc.Cli.ID().String()] = name
		}
		// Actor ids are ObjectIDs: seconds, then a process counter. One
		// simulated second between activations makes their order a function
		// of the schedule alone.
		gotime.Sleep(1100 * gotime.Millisecond)
	case "deactivate":
		sc := w.Client(st.C)
		if !sc.Cli.IsActive() {
			return StepResult{Out: "skip"}
		}
		w.dropHeld(st.C)
		var err error
		if w.RunFG(func() {
			if st.Flag == "async" {
				err = sc.Cli.Deactivate(ctx, client.WithAsynchronous())
			} else {
				err = sc.Cli.Deactivate(ctx)
			}
		}) {
			return StepResult{Out: "hang"}
		}
		res.Err = err
		res.Out = classify(err)
		if err == nil {
			for _, sd := range sc.Docs {
				if sd.Doc.Status() == attachable.StatusAttached {
					// the SDK leaves its documents as they are; the harness
					// knows the server detached them
					sd.Doc.SetStatus(attachable.StatusDetached)
				}
			}
		}
	case "newclient":
		// the client process is gone for good (crash, closed tab); a new
		// one takes its slot
		old := w.Client(st.C)
		old.Closed = true
		w.Graveyard = append(w.Graveyard, old)
		sc, err := w.newClient(st.C, old.Proj)
		if err != nil {
			panic(err)
		}
		w.Clients[st.C] = sc
	case "attach":
		sc := w.Client(st.C)
		if !sc.Cli.IsActive() {
			return StepResult{Out: "skip"}
		}
		sd := sc.Docs[st.D]
		if sd != nil && sd.Doc.Status() == attachable.StatusAttached {
			return StepResult{Out: "skip"}
		}
		// upstream does not support re-attaching a Document instance
		op := st.Opts
		if op == nil {
			op = &AttachOp{}
		}
		sd = sc.newDoc(st.D, w, op)
		var opts []interface{}
		if op.WireNoGC {
			opts = append(opts, client.WithDisableGC())
		}
		if op.NoPresence {
			opts = append(opts, client.WithDisablePresence())
		}
		if op.Presence != nil {
			opts = append(opts, client.WithPresence(presence.Data(op.Presence)))
		}
		if op.InitialRoot != "" {
			var o yson.Object
			if err := yson.Unmarshal(op.InitialRoot, &o); err == nil {
				opts = append(opts, client.WithInitialRoot(o))
			}
		}
		var err error
		if w.RunFG(func() { err = sc.Cli.Attach(ctx, sd.Doc, opts...) }) {
			return StepResult{Out: "hang"}
		}
		res.Err = err
		res.Out = classify(err)
	case "detach":
		sc := w.Client(st.C)
		sd := sc.Docs[st.D]
		if sd == nil || !sc.Cli.IsActive() || sd.Doc.Status() != attachable.StatusAttached {
			return StepResult{Out: "skip"}
		}
		w.dropHeld(st.C)
		var err error
		if w.RunFG(func() { err = sc.Cli.Detach(ctx, sd.Doc) }) {
			return StepResult{Out: "hang"}
		}
		res.Err = err
		res.Out = classify(err)
	case "remove":
		sc := w.Client(st.C)
		sd := sc.Docs[st.D]
		if sd == nil || !sc.Cli.IsActive() || sd.Doc.Status() != attachable.StatusAttached {
			return StepResult{Out: "skip"}
		}
		var err error
		if w.RunFG(func() { err = sc.Cli.Remove(ctx, sd.Doc) }) {
			return StepResult{Out: "hang"}
		}
		res.Err = err
		res.Out = classify(err)
	case "sync":
		sc := w.Client(st.C)
		sd := sc.Docs[st.D]
		if sd == nil || !sc.Cli.IsActive() || sd.Doc.Status() != attachable.StatusAttached {
			return StepResult{Out: "skip"}
		}
		opt := client.WithKey(sd.Key)
		if st.Flag == "push_only" {
			opt = opt.WithPushOnly()
		}
		var err error
		hadLocal := sd.Doc.HasLocalChanges()
		var before string
		if !hadLocal {
			before = sd.Doc.Marshal()
		}
		cpBefore := sd.Doc.Checkpoint()
		garbageBefore := sd.Doc.GarbageLen()
		if w.RunFG(func() { err = sc.Cli.Sync(ctx, opt) }) {
			return StepResult{Out: "hang"}
		}
		res.Err = err
		res.Out = classify(err)
		if err == nil && sd.Doc.GarbageLen() < garbageBefore {
			w.probe("client_gc_purged")
		}
		if err == nil && sd.Doc.Checkpoint().ServerSeq > cpBefore.ServerSeq {
			w.probe("sync_pulled")
			if !hadLocal && sd.Doc.Marshal() != before {
				w.probe("remote_change_applied")
			}
		}
		if err == nil && hadLocal {
			w.probe("sync_pushed")
		}
	case "update":
		sc := w.Client(st.C)
		sd := sc.Docs[st.D]
		if sd == nil || sd.Doc.Status() == attachable.StatusRemoved {
			return StepResult{Out: "skip"}
		}
		applied := 0
		var pv any
		err := func() (err error) {
			defer func() {
				if r := recover(); r != nil {
					pv = r
				}
			}()
			return sd.Doc.Update(func(root *yjson.Object, p *presence.Presence) error {
				for i := range st.Edits {
					if st.Fail != nil && i == st.Fail.After {
						if st.Fail.Mode == "panic" {
							panic(userPanic{})
						}
						return errUserCallback
					}
					if applyEdit(root, p, &st.Edits[i]) {
						applied++
					}
				}
				if st.Fail != nil && st.Fail.After >= len(st.Edits) {
					if st.Fail.Mode == "panic" {
						panic(userPanic{})
					}
					return errUserCallback
				}
				return nil
			})
		}()
		res.Applied = applied
		w.Stats.Probes["edit_applied"] += applied
		if pv != nil {
			if _, ok := pv.(userPanic); ok {
				res.Out = "userpanic"
			} else {
				panic(pv)
			}
		} else {
			res.Err = err
			if err != nil {
				res.Out = "err"
			} else if applied == 0 {
				res.Out = "noop"
			}
		}
	case "undo", "redo":
		sc := w.Client(st.C)
		sd := sc.Docs[st.D]
		if sd == nil || sd.Doc.Status() == attachable.StatusRemoved {
			return StepResult{Out: "skip"}
		}
		var err error
		if st.Op == "undo" {
			if !sd.Doc.CanUndo() {
				return StepResult{Out: "skip"}
			}
			err = sd.Doc.Undo()
		} else {
			if !sd.Doc.CanRedo() {
				return StepResult{Out: "skip"}
			}
			err = sd.Doc.Redo()
		}
		res.Err = err
		if err != nil {
			res.Out = "err"
		} else {
			w.probe(st.Op + "_done")
		}
	case "held":
		var ok bool
		var proc string
		var status int
		if w.RunFG(func() { proc, status, ok = w.DeliverHeld(st.I) }) {
			return StepResult{Out: "hang"}
		}
		if !ok {
			return StepResult{Out: "skip"}
		}
		res.Out = fmt.Sprintf("delivered:%s:%d", proc, status)
	case "bg":
		if drainDebug {
			var names []string
			for _, p := range w.Parked() {
				names = append(names, p.task.name+":"+p.method)
			}
			res.Out = fmt.Sprintf("ok%v", names)
		}
		if !w.ReleaseParked(st.I) {
			return StepResult{Out: "skip"}
		}
	case "bgdrain":
		// NOTE: the number of storage calls the background tasks still had to make is not
		// part of the outcome: which of two snapshot tasks of one document ends up writing
		// the snapshot is decided by a TryLock between goroutines of the server, and the
		// GC twin compares outcomes step by step
		w.DrainLog = nil
		n := w.DrainBackground()
		w.Stats.Probes["background_calls_drained"] += n
		res.Out = "ran"
		if drainDebug {
			res.Out += fmt.Sprint(n, w.DrainLog)
		}
	case "restart":
		if err := w.Restart(); err != nil {
			panic(err)
		}
		w.fault("server_restart")
	case "sleep":
		d, err := gotime.ParseDuration(st.Dur)
		if err != nil {
			return StepResult{Out: "skip"}
		}
		gotime.Sleep(d)
		w.fault("clock_advance")
		if d >= gotime.Hour {
			w.fault("clock_jump")
		}
	case "housekeeping":
		var err error
		var n int
		if w.RunFG(func() {
			hctx := context.WithValue(ctx, taskKey, w.nextFGTask())
			switch st.Flag {
			case "deactivate":
				_, _, n, err = clients.DeactivateInactives(hctx, w.gen.be, 100, 1, database.ZeroID)
			case "compact":
				_, _, _, n, err = documents.CompactDocuments(hctx, w.gen.be, 100, 1, 0, database.ZeroID)
			}
		}) {
			return StepResult{Out: "hang"}
		}
		res.Err = err
		res.Out = fmt.Sprintf("%s:%d", classify(err), n)
	case "cache":
		switch st.Flag {
		case "purge":
			w.gen.be.Cache.Snapshot.Purge()
			w.fault("snapshot_cache_purged")
		}
	case "cs":
		return w.execCS(st)
	case "ps":
		return w.execPS(st)
	case "c19":
		return w.execC19(st)
	case "raw":
		w.curCli = st.C
		return w.execRaw(st)
	case "revision":
		// performed by the oracle that owns the step (ysonMonitor)
	case "rebuild":
		// the oracle that owns this step does the work (see snapshotMonitor)
	case "admin":
		return w.execAdmin(st)
	case "spin":
		// self-test of the driver's stall watchdog (generated only when VERIF_DEBUG_SPIN_AT is set)
		for {
		}
	case "intrude":
		return w.execIntrude(st)
	case "rotate":
		return w.execRotate(st)
	case "decode_hostile":
		return w.execDecodeHostile(st)
	case "corrupt_store":
		return w.execCorruptStore(st)
	default:
		panic("unknown step op " + st.Op)
	}
	return res
}

// bgSpawned reads how many background goroutines the server has started (debugging).
func (w *World) bgSpawned() int32 {
	b := reflect.ValueOf(w.gen.be).Elem().FieldByName("background")
	v := reflect.NewAt(b.Type(), unsafe.Pointer(b.UnsafeAddr())).Elem().Elem().FieldByName("routineID")
	return *(*int32)(unsafe.Pointer(v.UnsafeAddr()))
}

func (w *World) nextFGTask() *taskInfo {
	w.rpcSeq++
	return &taskInfo{name: fmt.Sprintf("rpc%d", w.rpcSeq), fg: true, rpc: w.rpcSeq}
}

type userPanic struct{}

var errUserCallback = errors.New("sim: user callback failed")

// dropHeld forgets the delayed copies of a client's earlier requests when the
// client ends its attachment: a stale duplicate that arrives after the same
// client re-attached the document is accepted as new (the client sequence
// restarts) - finding F-C05-stale-duplicate-after-reattach, owned by C05,
// whose profile sets KeepHeldAcrossDetach.
func (w *World) dropHeld(c int) {
	if w.Cfg.Extra["keep_held_across_detach"] > 0 {
		return
	}
	var keep []*heldRequest
	for _, h := range w.held {
		if h.Client != c {
			keep = append(keep, h)
		}
	}
	w.held = keep
}

type ctxSchedKey struct{}
type ctxClientKey struct{}

// ctxDupKey marks a call whose request the network delivers twice, both copies in
// flight at the same time (the client's first attempt is slow, it retries).
type ctxDupKey struct{}

// ctxFor returns the context of a client call: inside a parallel section it
// names the scheduler task and the client slot, so that the transport can bind
// the goroutine that performs the round trip to the task.
func (w *World) ctxFor(st *Step) context.Context {
	ctx := w.ctx
	if s := w.Sched; s != nil {
		if t := s.taskOfGoroutine(false); t != nil {
			ctx = context.WithValue(ctx, ctxSchedKey{}, t)
		}
		ctx = context.WithValue(ctx, ctxClientKey{}, st.C)
		if st.Net == "dup" {
			ctx = context.WithValue(ctx, ctxDupKey{}, true)
		}
	}
	return ctx
}

// laneOf says which task a sub-step of a parallel section belongs to: the
// calls of one client run one after the other, everything else is a task of
// its own.
func laneOf(i int, st *Step) string {
	switch st.Op {
	case "activate", "deactivate", "attach", "detach", "remove", "sync", "update", "undo", "redo", "newclient":
		return fmt.Sprintf("client%d", st.C)
	case "ps":
		return fmt.Sprintf("%s%02d", st.Flag, st.C)
	}
	return fmt.Sprintf("%s#%d", st.Op, i)
}

// execPar runs the sub-steps as concurrent tasks under the step-level scheduler.
func (w *World) execPar(st *Step) (res StepResult) {
	res.Out = "ok"
	res.Sub = make([]StepResult, len(st.Sub))
	s := newSched(w, uint64(st.I)*0x9e3779b97f4a7c15+1, w.Cfg.Property)
	s.Script = append([]string(nil), st.Sched...)
	w.DrainBackground()
	w.Sched = s
	lanes := map[string][]int{}
	var order []string
	for i := range st.Sub {
		l := laneOf(i, &st.Sub[i])
		if _, ok := lanes[l]; !ok {
			order = append(order, l)
		}
		lanes[l] = append(lanes[l], i)
	}
	sort.Strings(order)
	for _, l := range order {
		idxs := lanes[l]
		s.Spawn(l, func() {
			for _, i := range idxs {
				res.Sub[i] = w.Exec(&st.Sub[i])
			}
		})
	}
	if st.Flag == "ticks" {
		s.TickPct = w.Cfg.Extra["tick_pct"]
		s.FairTicks = true
	}
	s.CrashPct = w.Cfg.Extra["crash_permille"]
	w.LastSchedTrace = nil
	s.Run()
	w.Sched = nil
	w.LastSchedTrace = s.Trace
	if s.Crashed {
		res.Out = "crashed"
	}
	defer func() {
		if w.gen.dead && s.Viol == nil {
			if err := w.Restart(); err != nil {
				panic(err)
			}
			w.probe("crash_restart")
		}
	}()
	w.Stats.Probes["sched_steps"] += s.stepNo
	for _, t := range s.tasks {
		if t.err != nil {
			panic(t.err)
		}
	}
	if s.Viol != nil {
		res.Viol = s.Viol
		res.Out = "sched:" + s.Viol.Class
		// tasks that never finish would keep the bubble alive: mark the generation dead
		w.gen.dead = true
	} else if s.orderViol != "" {
		res.Viol = &Violation{Property: s.Prop, Oracle: "lock_order", Class: "lock_order_violated:" + lockOrderClass(s.orderViol), Detail: s.orderViol, Step: w.stepIndex}
	}
	w.LastSchedTrace = s.Trace
	return res
}

func lockOrderClass(s string) string {
	// "task X acquires A (...) while holding B (...)"
	f := strings.Fields(s)
	a, b := "", ""
	for i, x := range f {
		if x == "acquires" && i+1 < len(f) {
			a = f[i+1]
		}
		if x == "holding" && i+1 < len(f) {
			b = f[i+1]
		}
	}
	return b + "_before_" + a
}
