package sim

import (
	"context"
	"fmt"
	"math/rand/v2"
	"net/http"

	"connectrpc.com/connect"

	"github.com/yorkie-team/yorkie/api/converter"
	"github.com/yorkie-team/yorkie/api/types"
	api "github.com/yorkie-team/yorkie/api/yorkie/v1"
	"github.com/yorkie-team/yorkie/api/yorkie/v1/v1connect"
	"github.com/yorkie-team/yorkie/pkg/document"
	"github.com/yorkie-team/yorkie/pkg/document/change"
	yjson "github.com/yorkie-team/yorkie/pkg/document/json"
	"github.com/yorkie-team/yorkie/pkg/document/presence"
	"github.com/yorkie-team/yorkie/pkg/document/time"
)

// Raw protocol clients: they issue any lifecycle call in any state, valid or
// not (the SDK refuses most invalid calls locally, the server must refuse
// them as well). A reference state machine written from
// docs/design/document-client-lifecycle.md predicts accept / reject.

type rawDoc struct {
	doc    *document.Document
	docID  string
	status string // "", attached, detached, removed
}

type rawClient struct {
	key    string
	id     string
	status string // "", activated, deactivated
	docs   map[int]*rawDoc
}

type rawWorld struct {
	svc         v1connect.YorkieServiceClient
	clients     map[int]*rawClient
	removed     map[string]bool // docID -> removed for everyone
	removedSlot map[int]bool    // document key whose (some) document was removed
	edits       int
}

type apiKeyInterceptor struct{ key string }

func (i apiKeyInterceptor) WrapUnary(next connect.UnaryFunc) connect.UnaryFunc {
	return func(ctx context.Context, req connect.AnyRequest) (connect.AnyResponse, error) {
		req.Header().Set(types.APIKeyKey, i.key)
		return next(ctx, req)
	}
}
func (i apiKeyInterceptor) WrapStreamingClient(next connect.StreamingClientFunc) connect.StreamingClientFunc {
	return next
}
func (i apiKeyInterceptor) WrapStreamingHandler(next connect.StreamingHandlerFunc) connect.StreamingHandlerFunc {
	return next
}

func (w *World) raw() *rawWorld {
	if w.Raw == nil {
		w.Raw = &rawWorld{
			svc:     v1connect.NewYorkieServiceClient(&http.Client{}, "http://sim.invalid:1", connect.WithInterceptors(apiKeyInterceptor{w.Projects[0].PublicKey})),
			clients: map[int]*rawClient{}, removed: map[string]bool{}, removedSlot: map[int]bool{},
		}
	}
	return w.Raw
}

func (rw *rawWorld) client(c int) *rawClient {
	rc := rw.clients[c]
	if rc == nil {
		rc = &rawClient{key: fmt.Sprintf("raw-%d", c), docs: map[int]*rawDoc{}}
		rw.clients[c] = rc
	}
	return rc
}

var zeroID = "000000000000000000000000"

// execRaw performs one raw call; it reports whether the server accepted it.
func (w *World) execRaw(st *Step) (res StepResult) {
	rw := w.raw()
	rc := rw.client(st.C)
	ctx := w.ctx
	id := rc.id
	if id == "" {
		id = zeroID
	}
	rd := rc.docs[st.D]
	freshDoc := func() *document.Document {
		d := document.New(docKey(st.D))
		if rc.id != "" {
			if a, err := time.ActorIDFromHex(rc.id); err == nil {
				d.SetActor(a)
			}
		}
		return d
	}
	pack := func(d *document.Document, edit bool) *api.ChangePack {
		if edit {
			rw.edits++
			n := rw.edits
			_ = d.Update(func(r *yjson.Object, p *presence.Presence) error {
				r.SetInteger(fmt.Sprintf("e%d", st.C), n)
				return nil
			})
		}
		pb, err := converter.ToChangePack(d.CreateChangePack())
		if err != nil {
			panic(err)
		}
		return pb
	}
	apply := func(d *document.Document, pb *api.ChangePack) (*change.Pack, error) {
		p, err := converter.FromChangePack(pb)
		if err != nil {
			return nil, err
		}
		return p, d.ApplyChangePack(p)
	}
	var err error
	w.RunFG(func() {
		switch st.Flag {
		case "activate":
			var r *connect.Response[api.ActivateClientResponse]
			r, err = rw.svc.ActivateClient(ctx, connect.NewRequest(&api.ActivateClientRequest{ClientKey: rc.key}))
			if err == nil {
				rc.id = r.Msg.ClientId
			}
		case "deactivate":
			_, err = rw.svc.DeactivateClient(ctx, connect.NewRequest(&api.DeactivateClientRequest{ClientId: id, Synchronous: true}))
		case "attach":
			d := freshDoc()
			_ = d.Update(func(r *yjson.Object, p *presence.Presence) error { p.Initialize(nil); return nil })
			var r *connect.Response[api.AttachDocumentResponse]
			r, err = rw.svc.AttachDocument(ctx, connect.NewRequest(&api.AttachDocumentRequest{ClientId: id, ChangePack: pack(d, false)}))
			if err == nil {
				if _, aerr := apply(d, r.Msg.ChangePack); aerr != nil {
					err = fmt.Errorf("apply attach response: %w", aerr)
					return
				}
				nd := &rawDoc{doc: d, docID: r.Msg.DocumentId, status: "attached"}
				if rd != nil && rd.status == "attached" && !rw.removedSlot[st.D] {
					// the model will flag this acceptance; keep the old instance
					return
				}
				rc.docs[st.D] = nd
				res.Applied = 1
			}
		case "attach_bad":
			// an attach the server must refuse AFTER it has noted the attempt: the pack's
			// first change carries client sequence 2 (a gap)
			d := freshDoc()
			_ = d.Update(func(r *yjson.Object, p *presence.Presence) error { p.Initialize(nil); return nil })
			_ = d.Update(func(r *yjson.Object, p *presence.Presence) error { r.SetInteger("gap", 1); return nil })
			pb := pack(d, false)
			if len(pb.Changes) >= 2 {
				pb.Changes = pb.Changes[1:]
			}
			_, err = rw.svc.AttachDocument(ctx, connect.NewRequest(&api.AttachDocumentRequest{ClientId: id, ChangePack: pb}))
			if err != nil && (rd == nil || rd.status != "attached") {
				// the client knows the document's id from elsewhere (ids are not secrets)
				if info, ferr := w.mem.FindDocInfoByKey(context.Background(), w.Projects[0].ID, docKey(st.D)); ferr == nil && info != nil {
					rc.docs[st.D] = &rawDoc{doc: freshDoc(), docID: string(info.ID), status: "attach_failed"}
				}
			}
		case "pushpull", "detach", "remove":
			d, docID := (*document.Document)(nil), zeroID
			if rd != nil {
				d, docID = rd.doc, rd.docID
			} else {
				d = freshDoc()
			}
			pb := pack(d, st.Flag == "pushpull" || st.I%2 == 0)
			var rp *api.ChangePack
			switch st.Flag {
			case "pushpull":
				var r *connect.Response[api.PushPullChangesResponse]
				r, err = rw.svc.PushPullChanges(ctx, connect.NewRequest(&api.PushPullChangesRequest{ClientId: id, DocumentId: docID, ChangePack: pb}))
				if err == nil {
					rp = r.Msg.ChangePack
				}
			case "detach":
				var r *connect.Response[api.DetachDocumentResponse]
				r, err = rw.svc.DetachDocument(ctx, connect.NewRequest(&api.DetachDocumentRequest{ClientId: id, DocumentId: docID, ChangePack: pb}))
				if err == nil {
					rp = r.Msg.ChangePack
				}
			case "remove":
				pb.IsRemoved = true
				var r *connect.Response[api.RemoveDocumentResponse]
				r, err = rw.svc.RemoveDocument(ctx, connect.NewRequest(&api.RemoveDocumentRequest{ClientId: id, DocumentId: docID, ChangePack: pb}))
				if err == nil {
					rp = r.Msg.ChangePack
				}
			}
			if err == nil && rp != nil && rd != nil {
				p, aerr := apply(d, rp)
				if aerr != nil {
					err = fmt.Errorf("apply response: %w", aerr)
					return
				}
				if p.IsRemoved {
					res.Applied = 2 // the response carried the removed flag
				}
			}
		}
	})
	res.Err = err
	res.Out = "accepted"
	if err != nil {
		res.Out = "rejected"
		if c := classify(err); c != "err" {
			res.Out = c
		}
	}
	return res
}

// lifecycleMonitor is the reference state machine.
type lifecycleMonitor struct {
	prop    string
	preHead map[string]int64
	preD    string
	preID   string
}

func (m *lifecycleMonitor) heads(rc *RunCtx) map[string]int64 {
	out := map[string]int64{}
	rw := rc.W.raw()
	for _, c := range rw.clients {
		for _, d := range c.docs {
			if d.docID == "" {
				continue
			}
			if info, err := rc.W.mem.FindDocInfoByRefKey(context.Background(), types.DocRefKey{ProjectID: rc.W.Projects[0].ID, DocID: types.ID(d.docID)}); err == nil {
				out[d.docID] = info.ServerSeq
			}
		}
	}
	return out
}

func (m *lifecycleMonitor) BeforeStep(rc *RunCtx, i int, st *Step) {
	if st.Op == "raw" {
		m.preHead = m.heads(rc)
		m.preD = docStatus(rc.W.raw().client(st.C).docs[st.D])
		m.preID = ""
		if d := rc.W.raw().client(st.C).docs[st.D]; d != nil {
			m.preID = d.docID
		}
	}
}

func (m *lifecycleMonitor) AfterStep(rc *RunCtx, i int, st *Step, res *StepResult) *Violation {
	if st.Op != "raw" {
		return nil
	}
	if res.Out != "accepted" && res.Out != "rejected" {
		return nil // injected fault
	}
	rw := rc.W.raw()
	c := rw.client(st.C)
	d := c.docs[st.D]
	accepted := res.Out == "accepted"
	bad := func(oracle, class, detail string) *Violation {
		return &Violation{Property: m.prop, Oracle: oracle, Class: class, Detail: fmt.Sprintf("%s client %d doc %d (client %s, doc %s): %s; error: %v", st.Flag, st.C, st.D, c.status, m.preD, detail, res.Err), Step: i}
	}
	active := c.status == "activated"
	var expect, known bool
	switch st.Flag {
	case "activate":
		expect, known = true, true
	case "deactivate":
		if active {
			expect, known = true, true
		}
	case "attach":
		known = true
		expect = active && m.preD != "attached"
	case "attach_bad":
		known, expect = true, false
	case "pushpull":
		known = true
		expect = active && m.preD == "attached"
	case "detach":
		known = true
		expect = active && m.preD == "attached"
	case "remove":
		known = true
		expect = active && m.preD == "attached"
	}
	// a document that somebody removed: peers still attached to it learn it
	// from the flag; whether their further calls on the dead document are
	// accepted or refused is not specified - only that nothing is stored and
	// the flag is set (checked below). Attaching its key again creates a new
	// document (key : id is 1 : N).
	if rw.removedSlot[st.D] && st.Flag != "activate" && st.Flag != "deactivate" {
		known = false
	}
	// after a refused attach the server remembers the attempt ("attaching"): Detach and
	// Remove are allowed to clean that up (EnsureDocumentAttachedOrAttaching) - or not;
	// PushPull must be refused, a new Attach must be possible
	if m.preD == "attach_failed" && (st.Flag == "detach" || st.Flag == "remove") {
		known = false
	}
	rc.W.probe("lifecycle_call:" + st.Flag + ":" + res.Out)
	if known && accepted != expect {
		if accepted {
			return bad("invalid_call_rejected", "invalid_"+st.Flag+"_accepted", "the state machine forbids this call")
		}
		return bad("valid_call_accepted", "valid_"+st.Flag+"_rejected", "the state machine allows this call")
	}
	// ---- effects
	heads := m.heads(rc)
	if !accepted {
		for id, h := range heads {
			if pre, ok := m.preHead[id]; ok && h != pre {
				return bad("rejected_call_stores_nothing", "rejected_call_grew_log", fmt.Sprintf("doc %s head %d -> %d", id[len(id)-4:], pre, h))
			}
		}
		return nil
	}
	switch st.Flag {
	case "activate":
		c.status = "activated"
	case "deactivate":
		c.status = "deactivated"
		for _, dd := range c.docs {
			if dd.status == "attached" {
				dd.status = "detached"
			}
		}
	case "attach":
		if nd := c.docs[st.D]; nd != nil {
			nd.status = "attached"
		}
	case "pushpull":
		if d != nil && rw.removed[d.docID] {
			if res.Applied != 2 {
				return bad("removed_flag_for_everyone", "response_without_removed_flag", "the document was removed but the response does not say so")
			}
			if pre, ok := m.preHead[d.docID]; ok && heads[d.docID] != pre {
				return bad("removed_document_stores_nothing", "removed_document_grew_log", fmt.Sprintf("head %d -> %d", pre, heads[d.docID]))
			}
			d.status = "removed"
		}
	case "detach":
		if d != nil {
			d.status = "detached"
			if rw.removed[d.docID] {
				d.status = "removed"
			}
		}
	case "remove":
		if d != nil {
			d.status = "removed"
			rw.removed[d.docID] = true
			rw.removedSlot[st.D] = true
		}
	}
	// ---- nobody attached => no version-vector row may hold GC back
	if st.Flag == "detach" || st.Flag == "deactivate" || st.Flag == "remove" {
		seen := map[string]bool{}
		for _, cc := range rw.clients {
			for _, dd := range cc.docs {
				if dd.docID == "" || seen[dd.docID] || rw.removed[dd.docID] {
					continue
				}
				slotRemoved := false
				for k, x := range cc.docs {
					if x == dd && rw.removedSlot[k] {
						slotRemoved = true
					}
				}
				if slotRemoved {
					continue
				}
				seen[dd.docID] = true
				anyAttached := false
				for _, c2 := range rw.clients {
					for _, d2 := range c2.docs {
						if d2.docID == dd.docID && d2.status == "attached" && c2.status == "activated" {
							anyAttached = true
						}
					}
				}
				if anyAttached {
					continue
				}
				sentinel := time.NewVersionVector()
				sentinel.Set(time.MaxActorID, 77)
				min, err := rc.W.mem.GetMinVersionVector(context.Background(), types.DocRefKey{ProjectID: rc.W.Projects[0].ID, DocID: types.ID(dd.docID)}, sentinel)
				if err != nil {
					continue
				}
				rc.W.probe("vector_rows_checked")
				if v, _ := min.Get(time.MaxActorID); v != 77 {
					return bad("detached_client_holds_no_vector_row", "version_vector_row_left_behind",
						fmt.Sprintf("nobody is attached to doc %s any more but a stored version vector still lowers the minimum (%s)", dd.docID[len(dd.docID)-4:], min.Marshal()))
				}
			}
		}
	}
	return nil
}

func preDocID(m *lifecycleMonitor, d *rawDoc) string {
	if m.preID != "" {
		return m.preID
	}
	return d.docID
}

func docStatus(d *rawDoc) string {
	if d == nil || d.status == "" {
		return "nil"
	}
	return d.status
}

func (m *lifecycleMonitor) Final(rc *RunCtx) *Violation { return nil }

func c11Config(r *rand.Rand) *RunConfig {
	return &RunConfig{
		Clients: 2, Docs: 2, Projects: 1, Steps: 8 + r.IntN(30),
		SnapshotThreshold: pickN(r, []int64{2, 500}), SnapshotInterval: pickN(r, []int64{2, 500}), SnapshotCacheSize: 10,
		W:     map[string]int{"activate": 3, "deactivate": 2, "attach": 6, "pushpull": 8, "detach": 4, "remove": 1, "attach_bad": 1},
		Extra: map[string]int{"net_fault_pct": 5 * r.IntN(2), "shard_collide": r.IntN(2)},
	}
}

func c11Next(rc *RunCtx) *Step {
	if rc.I >= rc.Cfg.Steps {
		return nil
	}
	st := &Step{Op: "raw", Flag: weighted(rc.R, rc.Cfg.W), C: rc.R.IntN(2), D: rc.R.IntN(2), I: rc.R.IntN(4)}
	if rc.I < 2 {
		st.Flag, st.C = "activate", rc.I
	}
	// the SDK never re-activates an activated client (Activate returns early);
	// the lifecycle document does not define it either
	if st.Flag == "activate" && rc.W.raw().client(st.C).status == "activated" {
		st.Flag = "pushpull"
	}
	return st
}

func init() {
	Register(&Profile{Name: "c11_lifecycle", Property: "C11", Config: c11Config, Next: c11Next, NoQuiesce: true,
		Monitors: func(rc *RunCtx) []Monitor { return []Monitor{&lifecycleMonitor{prop: "C11"}} },
		Nontrivial: func(rc *RunCtx) bool {
			n := 0
			for k := range rc.W.Stats.Probes {
				if len(k) > 15 && k[:15] == "lifecycle_call:" {
					n++
				}
			}
			return n >= 4
		}})
}
