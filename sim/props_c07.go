package sim

import (
	"fmt"
	"math/rand/v2"
	"strings"
	"unicode/utf16"

	"github.com/yorkie-team/yorkie/pkg/document"
	"github.com/yorkie-team/yorkie/pkg/document/crdt"
	yjson "github.com/yorkie-team/yorkie/pkg/document/json"
	"github.com/yorkie-team/yorkie/pkg/document/presence"
	"github.com/yorkie-team/yorkie/pkg/document/yson"
)

// C07: "deleted content never influences visible indices, lengths or lookups".
//
// The replicas of a C01/C02-style session carry everything a history leaves
// behind: tombstones, split text and tree nodes, dead array slots of moved
// elements, structures rebuilt from snapshots and deep copies, partly
// collected garbage. Before every local Update of such a replica a TWIN is
// built: a brand-new Document that receives only the replica's VISIBLE content
// (through the YSON export/import, which C18 checks separately) - no
// tombstones, no splits, no dead slots, no history. The same editing calls -
// same paths, same indices, resolved against the visible state by the same
// executor - are applied to both. Afterwards the visible content must be
// equal: canonical form (text as attribute runs over the UTF-16 string, trees
// as XML, arrays and objects by value). Whatever differs is an index, a length
// or a lookup that saw something invisible.
//
// Plus what a plain model says without any twin: Array.Len() equals the number
// of visible elements and Get(i) walks them in order; Text.Len? no - the
// length of a text in UTF-16 units equals the sum of its visible runs; the
// tree's Len() equals the size computed from its XML.
//
// The reference is therefore the implementation itself on a clean
// reconstruction, not an independent re-implementation of text/array/tree
// semantics (a bug that shows on clean structures as well is the business of
// the unit tests the property's rationale mentions).

type twinState struct {
	doc   *document.Document
	canon string
	err   string
}

type localModelMonitor struct {
	prop string
	twin *twinState
}

func buildTwin(root *crdt.Object) (*document.Document, error) {
	v, err := yson.FromCRDT(root)
	if err != nil {
		return nil, fmt.Errorf("export: %w", err)
	}
	obj, ok := v.(yson.Object)
	if !ok {
		return nil, fmt.Errorf("export is %T", v)
	}
	nd := document.New("twin")
	var pv any
	err = func() (err error) {
		defer func() {
			if r := recover(); r != nil {
				pv = r
			}
		}()
		return nd.Update(func(r *yjson.Object, p *presence.Presence) error {
			r.SetYSON(obj)
			return nil
		})
	}()
	if pv != nil {
		return nil, fmt.Errorf("import panicked: %v", pv)
	}
	return nd, err
}

func hasDedup(root *crdt.Object) bool {
	found := false
	root.Descendants(func(e crdt.Element, _ crdt.Container) bool {
		if c, ok := e.(*crdt.Counter); ok && e.RemovedAt() == nil && strings.Contains(fmt.Sprint(c.ValueType()), "2") {
			found = true
		}
		return false
	})
	return found
}

func (m *localModelMonitor) BeforeStep(rc *RunCtx, i int, st *Step) {
	m.twin = nil
	if st.Op != "update" || st.Fail != nil || len(st.Edits) == 0 {
		return
	}
	sc := rc.W.Client(st.C)
	sd := sc.Docs[st.D]
	if sd == nil {
		return
	}
	for _, e := range st.Edits {
		if strings.HasPrefix(e.K, "p.") || strings.HasPrefix(e.K, "cons.") || e.K == "c.dadd" || e.K == "o.yson" {
			return // presence is not document content; the dedup counter's state does not survive the export (finding of C18)
		}
	}
	root := sd.Doc.RootObject()
	tw, err := buildTwin(root)
	if err != nil {
		m.twin = &twinState{err: err.Error()}
		return
	}
	if canon(tw.RootObject()) != canon(root) {
		// the export/import did not reproduce the visible content: C18's business
		rc.W.probe("twin_not_faithful")
		return
	}
	m.twin = &twinState{doc: tw}
}

func (m *localModelMonitor) AfterStep(rc *RunCtx, i int, st *Step, res *StepResult) *Violation {
	if st.Op != "update" || m.twin == nil {
		return m.plain(rc, i, st)
	}
	tw := m.twin
	m.twin = nil
	if tw.err != "" || res.Out != "ok" {
		return nil
	}
	sc := rc.W.Client(st.C)
	sd := sc.Docs[st.D]
	var pv any
	err := func() (err error) {
		defer func() {
			if r := recover(); r != nil {
				pv = r
			}
		}()
		return tw.doc.Update(func(r *yjson.Object, p *presence.Presence) error {
			for k := range st.Edits {
				e := st.Edits[k]
				applyEdit(r, p, &e)
			}
			return nil
		})
	}()
	if pv != nil || err != nil {
		// the call succeeded on the replica and fails on a clean document with the same content
		return &Violation{Property: m.prop, Oracle: "same_call_on_clean_twin", Class: "call_fails_on_clean_twin_only",
			Detail: fmt.Sprintf("client %d: the update succeeded on the replica but on a new document with the same visible content it fails: %v %v", st.C, err, pv), Step: i}
	}
	rc.W.probe("twin_compared")
	got, want := canon(sd.Doc.RootObject()), canon(tw.doc.RootObject())
	if got != want {
		return &Violation{Property: m.prop, Oracle: "edit_does_what_the_index_says", Class: "replica_differs_from_clean_twin:" + kindsOf(st),
			Detail: fmt.Sprintf("client %d: the same calls on the replica (with its tombstones, splits and dead slots) and on a new document with the same visible content give different content\n  replica: %s\n  twin:    %s", st.C, clip(got), clip(want)), Step: i}
	}
	return m.plain(rc, i, st)
}

func kindsOf(st *Step) string {
	seen := map[string]bool{}
	var ks []string
	for _, e := range st.Edits {
		k := e.K
		if i := strings.Index(k, "."); i > 0 {
			k = k[:i]
		}
		if !seen[k] {
			seen[k] = true
			ks = append(ks, k)
		}
	}
	return strings.Join(ks, "+")
}

// plain: what needs no twin.
func (m *localModelMonitor) plain(rc *RunCtx, i int, st *Step) *Violation {
	switch st.Op {
	case "update", "sync", "attach":
	default:
		return nil
	}
	sc := rc.W.Client(st.C)
	sd := sc.Docs[st.D]
	if sd == nil {
		return nil
	}
	var v *Violation
	bad := func(class, detail string) {
		if v == nil {
			v = &Violation{Property: m.prop, Oracle: "lengths_and_lookups_ignore_deleted_content", Class: class, Detail: fmt.Sprintf("client %d: %s", st.C, detail), Step: i}
		}
	}
	root := sd.Doc.RootObject()
	one := func(e crdt.Element) {
		if e.RemovedAt() != nil {
			return
		}
		switch t := e.(type) {
		case *crdt.Array:
			els := t.Elements()
			if t.Len() != len(els) {
				bad("array_len_differs_from_visible_elements", fmt.Sprintf("Len()=%d, %d visible elements", t.Len(), len(els)))
			}
			for k, el := range els {
				g, err := t.Get(k)
				if err != nil || g == nil || g.CreatedAt().Key() != el.CreatedAt().Key() {
					bad("array_get_differs_from_visible_order", fmt.Sprintf("Get(%d) is not the %d-th visible element (%v)", k, k, err))
					break
				}
			}
			rc.W.probe("array_lookups_checked")
		case *crdt.Text:
			n := 0
			for _, nd := range t.Nodes() {
				if nd.RemovedAt() == nil {
					n += len(utf16.Encode([]rune(nd.Value().Value())))
				}
			}
			if got := len(utf16.Encode([]rune(t.String()))); got != n {
				bad("text_len_differs_from_visible_units", fmt.Sprintf("String() has %d UTF-16 units, the visible runs %d", got, n))
			}
		case *crdt.Tree:
			// size from the XML: every element counts 2, every UTF-16 unit of text 1, minus the root's own 2
			size := xmlSize(t.ToXML()) - 2
			if got := t.IndexTree.Root().Len(); got != size {
				bad("tree_len_differs_from_xml", fmt.Sprintf("Len()=%d, size of %s is %d", got, clip(t.ToXML()), size))
			}
			rc.W.probe("tree_len_checked")
		}
	}
	root.Descendants(func(e crdt.Element, _ crdt.Container) bool {
		one(e)
		return false
	})
	return v
}

// xmlSize computes the index size of a tree from its XML rendering.
func xmlSize(x string) int {
	n := 0
	for i := 0; i < len(x); {
		if x[i] == '<' {
			j := strings.IndexByte(x[i:], '>')
			if j < 0 {
				break
			}
			n++ // an opening or a closing tag
			i += j + 1
			continue
		}
		j := strings.IndexByte(x[i:], '<')
		if j < 0 {
			j = len(x) - i
		}
		n += len(utf16.Encode([]rune(xmlUnescape(x[i : i+j]))))
		i += j
	}
	return n
}

func xmlUnescape(s string) string {
	r := strings.NewReplacer("&lt;", "<", "&gt;", ">", "&amp;", "&", "&quot;", "\"", "&apos;", "'")
	return r.Replace(s)
}

func (m *localModelMonitor) Final(rc *RunCtx) *Violation { return nil }

func c07Config(r *rand.Rand) *RunConfig {
	cfg := c01Config(r.IntN(4) == 0)(r)
	// snapshots make replicas rebuild their working copies (deep copies of moved elements,
	// merged nodes), long offline stretches keep tombstones uncollected
	cfg.SnapshotThreshold = pickN(r, []int64{2, 5, 10, 500})
	cfg.SnapshotInterval = pickN(r, []int64{2, 5, 500})
	var kinds []string
	for _, k := range allKinds {
		if k != "dcnt" {
			kinds = append(kinds, k)
		}
	}
	cfg.Kinds = swarmKinds(r, kinds, "create")
	cfg.Kinds["treepath"] = r.IntN(2)
	if r.IntN(3) == 0 {
		cfg.ClientDisableGC, cfg.ServerDisableGC = true, true // everything ever deleted stays inside the structures
	}
	cfg.W["update"] = 50 + r.IntN(40)
	cfg.W["offline"] = 2 + r.IntN(4)
	applyKnownFindingSplits(r, cfg)
	// finding array-set-after-move-local needs both; most runs keep one of them
	if cfg.Kinds["arrset"] > 0 && cfg.Kinds["arrmove"] > 0 && r.IntN(10) > 0 {
		if r.IntN(2) == 0 {
			delete(cfg.Kinds, "arrset")
		} else {
			delete(cfg.Kinds, "arrmove")
		}
	}
	return cfg
}

func init() {
	Register(&Profile{Name: "c07_clean_twin", Property: "C07", Config: c07Config, Next: SessionNext,
		Monitors: func(rc *RunCtx) []Monitor {
			return append(sessionMonitors("C07", false)(rc), &localModelMonitor{prop: "C07"})
		},
		Nontrivial: func(rc *RunCtx) bool {
			p := rc.W.Stats.Probes
			return p["twin_compared"] >= 5 && p["remote_change_applied"] > 0
		}})
}
