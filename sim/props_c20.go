package sim

import (
	"errors"
	"fmt"
	"math/rand/v2"

	"github.com/yorkie-team/yorkie/api/types"
	"github.com/yorkie-team/yorkie/server/backend/database"
	"github.com/yorkie-team/yorkie/server/backend/database/mongo"
)

// The Mongo change cache (mongo.ChangeStore, real code) is driven through the
// call protocol of mongo/client.go against a ground-truth table with holes
// (sequence numbers whose presence-only changes live in another collection):
//   writer: ReplaceOrInsert(new op changes) + ExpandRange(pushed range)
//   reader: EnsureChanges(from, to, fetcher) + ChangesInRange(from, to)
//   eviction: the store is dropped.
// The Mongo collection and the glue in client.go are a stub (this driver).

type csState struct {
	store    *mongo.ChangeStore
	truth    map[int64]*database.ChangeInfo // op changes only
	head     int64
	covered  map[int64]bool // model: sequence numbers the cache vouches for
	failNext bool
}

func (w *World) cs() *csState {
	if w.CS == nil {
		w.CS = &csState{store: mongo.NewChangeStore(), truth: map[int64]*database.ChangeInfo{}, covered: map[int64]bool{}}
	}
	return w.CS
}

var errFetch = errors.New("sim: injected fetch failure")

func (w *World) execCS(st *Step) (res StepResult) {
	s := w.cs()
	res.Out = "ok"
	switch st.Flag {
	case "append":
		n := 1 + mod(st.I, 5)
		from := s.head + 1
		var ops []*database.ChangeInfo
		for k := 0; k < n; k++ {
			s.head++
			if mod(st.J+k, 3) == 0 {
				continue // presence-only: a hole in the op collection
			}
			ci := &database.ChangeInfo{ServerSeq: s.head, ClientSeq: uint32(s.head), ActorID: types.ID(fmt.Sprintf("%024x", 1+mod(st.J, 3))), Lamport: s.head, Operations: [][]byte{{byte(s.head)}}}
			s.truth[s.head] = ci
			ops = append(ops, ci)
		}
		// the writer of client.go: cache what it stored, vouch for the pushed range
		s.store.ReplaceOrInsert(ops)
		s.store.ExpandRange(mongo.ChangeRange{From: from, To: s.head})
		for q := from; q <= s.head; q++ {
			s.covered[q] = true
		}
		w.probe("cs_append")
	case "append_uncached":
		// another server node stored changes: this cache did not see them
		n := 1 + mod(st.I, 5)
		for k := 0; k < n; k++ {
			s.head++
			if mod(st.J+k, 3) == 0 {
				continue
			}
			s.truth[s.head] = &database.ChangeInfo{ServerSeq: s.head, ClientSeq: uint32(s.head), ActorID: types.ID(fmt.Sprintf("%024x", 2)), Lamport: s.head, Operations: [][]byte{{byte(s.head)}}}
		}
		w.probe("cs_append_uncached")
	case "evict":
		s.store = mongo.NewChangeStore()
		s.covered = map[int64]bool{}
		w.fault("change_cache_evicted")
	case "fail_next_fetch":
		s.failNext = true
	case "read":
		if s.head == 0 {
			return StepResult{Out: "skip"}
		}
		from := 1 + int64(mod(st.I, int(s.head)))
		to := from + int64(mod(st.J, int(s.head-from)+1))
		var redundant []int64
		fetched := map[int64]bool{}
		failed := false
		err := s.store.EnsureChanges(from, to, func(f, t int64) ([]*database.ChangeInfo, error) {
			if s.failNext {
				s.failNext = false
				failed = true
				w.fault("change_fetch_error")
				return nil, errFetch
			}
			var out []*database.ChangeInfo
			for q := f; q <= t; q++ {
				if s.covered[q] {
					redundant = append(redundant, q)
				}
				fetched[q] = true
				if ci := s.truth[q]; ci != nil {
					out = append(out, ci)
				}
			}
			w.probe("cs_fetch")
			return out, nil
		})
		if len(redundant) > 0 {
			res.Out = "err"
			res.Err = fmt.Errorf("redundant fetch: asked for %v although the cache covers them (read %d-%d)", redundant, from, to)
			return res
		}
		if err != nil {
			if failed {
				res.Out = "fetch_failed"
				// ranges fetched before the failing one are covered; the failed one is not
				for q := range fetched {
					s.covered[q] = true
				}
				return res
			}
			res.Out = "err"
			res.Err = fmt.Errorf("EnsureChanges(%d,%d): %w", from, to, err)
			return res
		}
		for q := range fetched {
			s.covered[q] = true
		}
		got := s.store.ChangesInRange(from, to)
		var want []int64
		for q := from; q <= to; q++ {
			if s.truth[q] != nil {
				want = append(want, q)
			}
		}
		var have []int64
		for _, ci := range got {
			have = append(have, ci.ServerSeq)
		}
		w.probe("cs_read_compared")
		if fmt.Sprint(want) != fmt.Sprint(have) {
			res.Out = "err"
			res.Err = fmt.Errorf("cache served %v for [%d,%d], the store holds %v", have, from, to, want)
		}
	}
	return res
}

type csMonitor struct{ prop string }

func (m *csMonitor) AfterStep(rc *RunCtx, i int, st *Step, res *StepResult) *Violation {
	if st.Op != "cs" || res.Err == nil {
		return nil
	}
	cls := "cache_served_range_differs_from_store"
	if len(res.Err.Error()) > 9 && res.Err.Error()[:9] == "redundant" {
		cls = "fetcher_asked_for_covered_range"
	}
	return &Violation{Property: m.prop, Oracle: "change_cache_transparent", Class: cls, Detail: res.Err.Error(), Step: i}
}
func (m *csMonitor) Final(rc *RunCtx) *Violation { return nil }

func c20csConfig(r *rand.Rand) *RunConfig {
	return &RunConfig{Clients: 0, Docs: 0, Projects: 1, Steps: 10 + r.IntN(50), SnapshotThreshold: 500, SnapshotInterval: 500, SnapshotCacheSize: 10,
		W: map[string]int{"append": 8, "append_uncached": 3, "read": 14, "evict": 1 + r.IntN(2), "fail_next_fetch": r.IntN(3)}}
}

func c20csNext(rc *RunCtx) *Step {
	if rc.I >= rc.Cfg.Steps {
		return nil
	}
	return &Step{Op: "cs", Flag: weighted(rc.R, rc.Cfg.W), I: rc.R.IntN(1000), J: rc.R.IntN(1000)}
}

// c20 snapshot-cache profile: C02's sessions with the cache oracle in front.
func c20snapConfig(r *rand.Rand) *RunConfig {
	cfg := c02Config(r.IntN(2) == 0)(r)
	cfg.W["rebuild"] = 6 + r.IntN(6)
	cfg.W["cache_purge"] = 1 + r.IntN(3)
	cfg.SnapshotCacheSize = int(pickN(r, []int64{1, 10}))
	return cfg
}

func c20snapMonitors(rc *RunCtx) []Monitor {
	sm := &snapshotMonitor{prop: "C20", fed: map[int]string{}}
	rc.W.wireTaps = append(rc.W.wireTaps, sm.tap(rc))
	return []Monitor{&sessionTap{}, &noFailMonitor{prop: "C20"}, sm, &convergenceMonitor{prop: "C20", server: true, midRun: false}}
}

func init() {
	Register(&Profile{Name: "c20_change_cache", Property: "C20", Config: c20csConfig, Next: c20csNext, NoQuiesce: true,
		Monitors: func(rc *RunCtx) []Monitor { return []Monitor{&csMonitor{prop: "C20"}} },
		Nontrivial: func(rc *RunCtx) bool {
			return rc.W.Stats.Probes["cs_read_compared"] >= 3 && rc.W.Stats.Probes["cs_fetch"] > 0
		}})
	Register(&Profile{Name: "c20_snapshot_cache", Property: "C20", Config: c20snapConfig, Next: SessionNext, Monitors: c20snapMonitors,
		Nontrivial: func(rc *RunCtx) bool { return rc.W.Stats.Probes["rebuild_warm_vs_cold_compared"] >= 2 }})
}
