package sim

import (
	"context"
	"fmt"

	"github.com/yorkie-team/yorkie/server/documents"
)

// execAdmin runs administrative actions against the server.
func (w *World) execAdmin(st *Step) (res StepResult) {
	res.Out = "ok"
	ctx := context.WithValue(w.ctx, taskKey, w.nextFGTask())
	switch st.Flag {
	case "compact", "force_compact":
		info, err := w.mem.FindDocInfoByKey(context.Background(), w.Projects[0].ID, docKey(st.D))
		if err != nil {
			return StepResult{Out: "skip"}
		}
		var compacted bool
		if w.RunFG(func() {
			compacted, err = documents.CompactDocument(ctx, w.gen.be, w.Projects[0], info, st.Flag == "force_compact")
		}) {
			return StepResult{Out: "hang"}
		}
		res.Err = err
		res.Out = fmt.Sprintf("%s:compacted=%v", classify(err), compacted)
	default:
		panic("unknown admin action " + st.Flag)
	}
	return res
}
