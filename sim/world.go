// Package sim is the deterministic simulator for yorkie: the real server
// pipeline (Connect handlers -> interceptors -> packs -> memdb), the real Go
// client and the real CRDTs in one process, with every message, storage call,
// background task and timer under the control of a seeded scheduler.
package sim

import (
	"google.golang.org/protobuf/proto"
	"os"
	"runtime/debug"

	"bytes"
	"context"
	"errors"
	"fmt"
	api "github.com/yorkie-team/yorkie/api/yorkie/v1"
	"github.com/yorkie-team/yorkie/pkg/zzsimrt"
	"io"
	"net/http"
	"net/http/httptest"
	"reflect"
	"sort"
	"strings"
	"sync"
	"testing/synctest"
	gotime "time"
	"unsafe"

	"github.com/yorkie-team/yorkie/api/types"
	"github.com/yorkie-team/yorkie/server/backend"
	"github.com/yorkie-team/yorkie/server/backend/database"
	"github.com/yorkie-team/yorkie/server/backend/housekeeping"
	"github.com/yorkie-team/yorkie/server/backend/membership"
	"github.com/yorkie-team/yorkie/server/logging"
	"github.com/yorkie-team/yorkie/server/profiling/prometheus"
	"github.com/yorkie-team/yorkie/server/rpc"
)

type ctxKey int

const taskKey ctxKey = 1

// taskInfo identifies the simulated task a storage call belongs to.
type taskInfo struct {
	name  string // "rpc12" for foreground requests, "b3" for background tasks
	fg    bool
	rpc   int
	calls int // storage calls made so far by this task
	per   map[string]int
	rec   *RPCRecord
	done  []string // background tasks: storage calls that have returned
}

// crashPanic is the sentinel panic that models the death of the server
// process at a storage call.
type crashPanic struct{ gen int }

var (
	// ErrNetDropped is what a client sees when the simulated network lost its
	// request or the response.
	ErrNetDropped = errors.New("sim: network dropped the message")
	// ErrCrashed is what a client sees when the server died while handling
	// its request.
	ErrCrashed = errors.New("sim: server crashed while handling the request")
	// ErrInjected is the storage error injected by the fault proxy.
	ErrInjected = errors.New("sim: injected storage failure")
	errDeadGen  = errors.New("sim: server generation is dead")
)

var (
	curWorld    *World // one simulated run at a time per process
	metricsOnce sync.Once
	metrics     *prometheus.Metrics
)

type simTransport struct{}

func (simTransport) RoundTrip(req *http.Request) (*http.Response, error) {
	w := curWorld
	if w == nil {
		return nil, errors.New("sim: no world")
	}
	return w.roundTrip(req)
}

// InitProcess must run once per process, outside any bubble.
func InitProcess() {
	// sharded caches (pkg/cache): keys take shards in the order of their first
	// appearance, or all the same shard when the run says so (then they evict each
	// other: the tree gives every shard SnapshotCacheSize/16, at least 1, entries)
	zzsimrt.ShardHook = func(cache, key string, shards int) int {
		w := curWorld
		if w == nil {
			return 0
		}
		w.mu.Lock()
		defer w.mu.Unlock()
		if w.shards == nil {
			w.shards = map[string]int{}
		}
		k := cache + "/" + key
		i, ok := w.shards[k]
		if !ok {
			i = len(w.shards)
			w.shards[k] = i
		}
		if w.Cfg.Extra["shard_collide"] > 0 {
			return 0
		}
		return i % shards
	}
	// identifiers (memdb object ids, xid): seconds of the simulated clock, then a counter
	// of the world - ordered like the real ones, equal in every process and every replay
	zzsimrt.IDHook = func(orig string) string {
		w := curWorld
		if w == nil {
			return orig
		}
		w.mu.Lock()
		defer w.mu.Unlock()
		w.simIDs++
		if len(orig) == 24 {
			return fmt.Sprintf("%08x%08x%08x", uint32(gotime.Now().Unix()), 0x51d00000, w.simIDs)
		}
		return fmt.Sprintf("sim%017d", w.simIDs)
	}
	_ = logging.SetLogLevel("fatal")
	http.DefaultTransport = simTransport{}
	metricsOnce.Do(func() {
		m, err := prometheus.NewMetrics()
		if err != nil {
			panic(err)
		}
		metrics = m
	})
}

// NetFault says what the simulated network does to the next top-level request.
type NetFault struct {
	Kind string `json:"kind"`           // drop_req | drop_resp | hold (deliver and keep a copy) | hold_only (keep a copy, do not deliver) | corrupt_req | corrupt_resp
	Seed int    `json:"seed,omitempty"` // corruption: seed of the mutation
}

// DBFault says what the storage proxy does to one storage call.
type DBFault struct {
	// Call >= 0: the 0-based index of the storage call inside the next
	// top-level request. Call < 0: the Nth (0-based) call of Method inside that
	// request; with BG the next background call of Method.
	Call   int    `json:"call"`
	Method string `json:"method,omitempty"`
	Nth    int    `json:"nth,omitempty"`
	Mode   string `json:"mode"` // err_before | err_after | crash_before | crash_after
	BG     bool   `json:"bg,omitempty"`
}

func (p *DBFault) matches(ti *taskInfo, method string, idx int, nth int) bool {
	if p.BG {
		return !ti.fg && p.Method == method
	}
	if !ti.fg {
		return false
	}
	if p.Call >= 0 {
		return p.Call == idx && (p.Method == "" || p.Method == method)
	}
	return p.Method == method && p.Nth == nth
}

type heldRequest struct {
	ID     int
	Method string
	URL    string
	Header http.Header
	Body   []byte
	Client int
	Proc   string
}

type parkedCall struct {
	task   *taskInfo
	method string
	key    string
	seq    int
	ch     chan error
}

type serverGen struct {
	n       int
	be      *backend.Backend
	srv     *rpc.Server
	handler http.Handler
	dead    bool
}

// RPCRecord describes one top-level request as seen by the transport.
type RPCRecord struct {
	N        int
	Proc     string
	Client   int
	Calls    []string // storage calls made while handling it
	Done     []string // ... and those that have returned
	Fault    string
	DBFault  string
	Err      string
	ReqBody  []byte
	RespBody []byte
	Status   int
}

// World is one simulated deployment.
type World struct {
	Cfg *RunConfig

	mu sync.Mutex // protects bookkeeping touched from storage hooks

	mem  database.Database
	gen  *serverGen
	gens int

	rpcSeq    int
	netPlan   *NetFault
	dbPlan    []*DBFault
	held      []*heldRequest
	heldSeq   int
	parked    []*parkedCall
	parkSeq   int
	tasks     map[string]*taskInfo
	curRPC    *RPCRecord
	RPCs      []*RPCRecord
	keepRPCs  bool
	curCli    int
	allTasks  []*taskInfo // every task that has completed a storage call
	DrainLog  []string
	Intr      *intruderState // C13
	Panics    []string       // C09 hostile: classes of recovered panics, in order
	PanicInfo []string
	keepPacks bool // C09: remember the packs seen on the wire (material for mutation)
	seenPacks [][]byte
	shards    map[string]int // cache key -> order of first appearance
	simIDs    int            // identifiers handed out in place of process-random ones (step-level engine)

	Projects []*types.Project

	Clients []*SimClient
	// Graveyard holds client objects whose process is gone (vanished,
	// replaced): the server may still consider them attached.
	Graveyard []*SimClient
	// ActorNames maps every actor id ever handed out to "c<slot>" / "c<slot>.<gen>".
	ActorNames map[string]string

	Sched          *Sched // non-nil inside a parallel section (step-level engine)
	LastSchedTrace []string
	stepIndex      int
	PS             *psState
	Raw            *rawWorld
	CS             *csState
	Stats          *Stats
	Log            []string
	ctx            context.Context
	cancel         context.CancelFunc

	observers []func(ev DBEvent)
	wireTaps  []func(ev *WireEvent)
}

// DBEvent is passed to storage observers after a call returned.
type DBEvent struct {
	Task   string
	FG     bool
	Method string
	Args   []any
	Rets   []any
}

// Stats counts what actually happened in a run.
type Stats struct {
	Faults map[string]int
	Probes map[string]int
}

func newStats() *Stats { return &Stats{Faults: map[string]int{}, Probes: map[string]int{}} }

func (w *World) probe(name string) { w.Stats.Probes[name]++ }
func (w *World) fault(name string) { w.Stats.Faults[name]++ }

func (w *World) logf(format string, a ...any) {
	if w.Cfg.Trace {
		w.Log = append(w.Log, fmt.Sprintf(format, a...))
	}
}

// NewWorld builds generation 1 of the server over a fresh memdb.
func NewWorld(cfg *RunConfig) (*World, error) {
	w := &World{Cfg: cfg, Stats: newStats(), tasks: map[string]*taskInfo{}, ActorNames: map[string]string{}}
	w.ctx, w.cancel = context.WithCancel(context.Background())
	curWorld = w
	if err := w.startGeneration(); err != nil {
		return nil, err
	}
	for i := 0; i < cfg.Projects; i++ {
		if err := w.createProject(i); err != nil {
			return nil, err
		}
	}
	return w, nil
}

// Close releases what can be released at the end of a run.
func (w *World) Close() {
	w.cancel()
	w.killGeneration()
	curWorld = nil
}

func backendConfig(cfg *RunConfig) *backend.Config {
	cache := cfg.SnapshotCacheSize
	if cache <= 0 {
		cache = 10
	}
	return &backend.Config{
		AdminUser:                     "admin",
		AdminPassword:                 "admin",
		AdminTokenDuration:            "100000h",
		UseDefaultProject:             false,
		SecretKey:                     "sim-secret",
		SnapshotDisableGC:             cfg.ServerDisableGC,
		SnapshotCacheSize:             cache,
		AuthWebhookCacheSize:          10,
		AuthWebhookCacheTTL:           "100000h",
		EnableWebhookValidation:       false,
		GatewayAddr:                   "sim.invalid:1",
		RPCAddr:                       "sim.invalid:1",
		Hostname:                      "sim",
		ChannelSessionTTL:             "100000h",
		ChannelSessionCleanupInterval: "100000h",
		ChannelSessionCountCacheTTL:   "100000h",
		ChannelSessionCountCacheSize:  10,
		ClusterRPCTimeout:             "100000h",
		ClusterClientTimeout:          "100000h",
		ClusterClientPoolSize:         1,
		MaxConcurrentClusterRPCs:      100,
		ClusterSecret:                 "sim-cluster-secret",
	}
}

func setUnexported(v reflect.Value, name string, val any) {
	f := v.FieldByName(name)
	reflect.NewAt(f.Type(), unsafe.Pointer(f.UnsafeAddr())).Elem().Set(reflect.ValueOf(val))
}

func getUnexported(v reflect.Value, name string) reflect.Value {
	f := v.FieldByName(name)
	return reflect.NewAt(f.Type(), unsafe.Pointer(f.UnsafeAddr())).Elem()
}

func (w *World) startGeneration() error {
	be, err := backend.New(
		backendConfig(w.Cfg),
		nil,
		&membership.Config{LeaseDuration: "15s", RenewalInterval: "5s"},
		&housekeeping.Config{Interval: "100000h", CandidatesLimit: 100, CompactionMinChanges: 1},
		metrics, nil, nil,
	)
	if err != nil {
		return fmt.Errorf("backend.New: %w", err)
	}
	// Webhooks are not exercised; their clients own hard-coded tickers that
	// would make simulated clock jumps expensive.
	be.EventWebhookManager.Close()
	be.AuthWebhookClient.Close()
	if w.mem == nil {
		w.mem = be.DB
	}
	w.gens++
	g := &serverGen{n: w.gens, be: be}
	be.DB = &DBProxy{Inner: w.mem, H: &dbHooks{w: w, g: g}}

	srv, err := rpc.NewServer(&rpc.Config{Port: 1, ReadHeaderTimeout: "10s", IdleTimeout: "10s"}, be)
	if err != nil {
		return fmt.Errorf("rpc.NewServer: %w", err)
	}
	g.srv = srv
	hs := getUnexported(reflect.ValueOf(srv).Elem(), "httpServer").Interface().(*http.Server)
	g.handler = hs.Handler

	// The server calls itself through the cluster client (Deactivate ->
	// DetachDocument, admin compaction, ...): route that through the
	// simulated network as well.
	cc, err := be.ClusterClient()
	if err != nil {
		return fmt.Errorf("cluster client: %w", err)
	}
	conn := getUnexported(reflect.ValueOf(cc).Elem(), "conn").Interface().(*http.Client)
	conn.Transport = simTransport{}
	conn.Timeout = 0

	w.gen = g
	return nil
}

// killGeneration marks the running server process dead: parked background
// tasks are released with an error and every later storage call from that
// generation fails fast, so nothing of it reaches storage any more.
func (w *World) killGeneration() {
	g := w.gen
	if g == nil || g.dead {
		return
	}
	w.mu.Lock()
	g.dead = true
	parked := w.parked
	w.parked = nil
	w.mu.Unlock()
	for _, p := range parked {
		p.ch <- errDeadGen
	}
	if len(parked) > 0 {
		synctest.Wait()
	}
	g.srv.Shutdown(false)
}

// Restart models "the yorkie process died and was started again": only what
// reached storage survives.
func (w *World) Restart() error {
	w.killGeneration()
	w.probe("server_restart")
	return w.startGeneration()
}

func (w *World) createProject(i int) error {
	ctx := context.Background()
	owner := types.ID("000000000000000000000001")
	if w.Cfg.Extra["users"] > 0 {
		// every project has an owner of its own (accounts are written directly: bcrypt
		// costs 70 ms of real time; tokens are minted with the server's secret)
		u, err := w.mem.CreateUserInfo(ctx, fmt.Sprintf("user%d", i), "not-a-bcrypt-hash")
		if err != nil {
			return fmt.Errorf("create user: %w", err)
		}
		owner = u.ID
	}
	info, err := w.mem.CreateProjectInfo(ctx, fmt.Sprintf("proj%d", i), owner)
	if err != nil {
		return fmt.Errorf("create project: %w", err)
	}
	thr, itv := w.Cfg.SnapshotThreshold, w.Cfg.SnapshotInterval
	fields := &types.UpdatableProjectFields{SnapshotThreshold: &thr, SnapshotInterval: &itv}
	if w.Cfg.ClientDeactivateThreshold != "" {
		fields.ClientDeactivateThreshold = &w.Cfg.ClientDeactivateThreshold
	}
	if w.Cfg.AutoRevision {
		t := true
		fields.AutoRevisionEnabled = &t
	}
	if w.Cfg.RemoveOnDetach {
		t := true
		fields.RemoveOnDetach = &t
	}
	info, err = w.mem.UpdateProjectInfo(ctx, info.ID, fields)
	if err != nil {
		return fmt.Errorf("update project: %w", err)
	}
	w.Projects = append(w.Projects, info.ToProject())
	return nil
}

// ---------------------------------------------------------------------------
// network seam

func procOf(path string) string {
	if i := strings.LastIndex(path, "/"); i >= 0 {
		svc := path[:i]
		if j := strings.LastIndex(svc, "."); j >= 0 {
			svc = svc[j+1:]
		}
		return svc + "/" + path[i+1:]
	}
	return path
}

func (w *World) roundTrip(req *http.Request) (*http.Response, error) {
	var body []byte
	if req.Body != nil {
		b, err := io.ReadAll(req.Body)
		if err != nil {
			return nil, err
		}
		_ = req.Body.Close()
		body = b
	}
	ctx := req.Context()
	if s := w.Sched; s != nil {
		var t *SchedTask
		if v, ok := ctx.Value(ctxSchedKey{}).(*SchedTask); ok {
			t = v
		} else if name := bgTaskName(ctx); name != "" {
			s.mu.Lock()
			t = s.bgByName[name]
			s.mu.Unlock()
		}
		if t != nil {
			undo := s.bind(t)
			defer undo()
		}
	}
	ti, _ := ctx.Value(taskKey).(*taskInfo)
	top := false
	if ti == nil {
		if name := bgTaskName(ctx); name != "" {
			// a background task calling the server through the cluster client
			ti = w.task(name, false)
		} else {
			top = true
			w.rpcSeq++
			ti = &taskInfo{name: fmt.Sprintf("rpc%d", w.rpcSeq), fg: true, rpc: w.rpcSeq}
		}
		ctx = context.WithValue(ctx, taskKey, ti)
	}
	if !top {
		resp, _, err := w.deliver(ctx, req.Method, req.URL.String(), req.Header, body)
		return resp, err
	}

	rec := &RPCRecord{N: ti.rpc, Proc: procOf(req.URL.Path), Client: w.curCli}
	if c, ok := ctx.Value(ctxClientKey{}).(int); ok {
		rec.Client = c
	}
	if w.keepRPCs {
		rec.ReqBody = body
	}
	ti.rec = rec
	w.mu.Lock()
	w.RPCs = append(w.RPCs, rec)
	w.mu.Unlock()
	if w.Sched == nil {
		w.curRPC = rec
		defer func() { w.curRPC = nil }()
	}

	var nf *NetFault
	if w.Sched == nil {
		nf = w.netPlan
		w.netPlan = nil
	}
	if nf != nil {
		rec.Fault = nf.Kind
		if nf.Kind == "hold" || nf.Kind == "hold_only" {
			w.heldSeq++
			w.held = append(w.held, &heldRequest{
				ID: w.heldSeq, Method: req.Method, URL: req.URL.String(),
				Header: req.Header.Clone(), Body: body, Client: w.curCli, Proc: rec.Proc,
			})
			w.fault("net_hold_copy")
		}
		if nf.Kind == "drop_req" || nf.Kind == "hold_only" {
			w.fault("net_drop_request")
			rec.Err = ErrNetDropped.Error()
			return nil, ErrNetDropped
		}
	}
	if s := w.Sched; s != nil && ctx.Value(ctxDupKey{}) != nil {
		// message duplication with both copies in flight: the copy is a task of its
		// own, its response goes nowhere
		w.rpcSeq++
		dti := &taskInfo{name: fmt.Sprintf("rpc%d", w.rpcSeq), fg: true, rpc: w.rpcSeq}
		drec := &RPCRecord{N: dti.rpc, Proc: rec.Proc, Client: rec.Client, Fault: "concurrent_duplicate"}
		dti.rec = drec
		w.mu.Lock()
		w.RPCs = append(w.RPCs, drec)
		w.mu.Unlock()
		w.fault("net_concurrent_duplicate")
		dctx := context.WithValue(w.ctx, taskKey, dti)
		method, url, hdr, dbody := req.Method, req.URL.String(), req.Header.Clone(), append([]byte(nil), body...)
		s.Spawn(fmt.Sprintf("dup%d", dti.rpc), func() {
			resp, rb, err := w.deliver(dctx, method, url, hdr, dbody)
			if err != nil {
				drec.Err = err.Error()
				return
			}
			drec.Status = resp.StatusCode
			if len(w.wireTaps) > 0 {
				if ev := decodeWire(drec, hdr, dbody, resp.StatusCode, resp.Header, rb); ev != nil {
					ev.Stale, ev.Lost = true, true
					for _, o := range w.wireTaps {
						o(ev)
					}
				}
			}
		})
	}
	if nf != nil && nf.Kind == "corrupt_req" {
		// the request reaches the server damaged (or was hostile to begin with)
		body = w.corruptBody(nf.Seed, rec.Proc, maybeGunzip(req.Header, body), true)
		req.Header.Del("Content-Encoding")
		w.fault("net_corrupt_request")
	}
	resp, respBody, err := w.deliver(ctx, req.Method, req.URL.String(), req.Header, body)
	if err != nil {
		rec.Err = err.Error()
		return nil, err
	}
	rec.Status = resp.StatusCode
	if w.keepRPCs {
		rec.RespBody = respBody
	}
	if nf != nil && nf.Kind == "corrupt_resp" && resp.StatusCode == 200 {
		respBody = w.corruptBody(nf.Seed, rec.Proc, maybeGunzip(resp.Header, respBody), false)
		resp.Header.Del("Content-Encoding")
		resp.Header.Del("Content-Length")
		resp.ContentLength = int64(len(respBody))
		resp.Body = io.NopCloser(bytes.NewReader(respBody))
		w.fault("net_corrupt_response")
		return resp, nil
	}
	if w.keepPacks && len(w.seenPacks) < 64 {
		if ev := decodeWire(rec, req.Header, body, resp.StatusCode, resp.Header, respBody); ev != nil {
			for _, pb := range []*api.ChangePack{ev.ReqPB, ev.RespPB} {
				if pb != nil && (len(pb.Changes) > 0 || len(pb.Snapshot) > 0) {
					if b, err := proto.Marshal(pb); err == nil {
						w.seenPacks = append(w.seenPacks, b)
					}
				}
			}
		}
	}
	if len(w.wireTaps) > 0 {
		if ev := decodeWire(rec, req.Header, body, resp.StatusCode, resp.Header, respBody); ev != nil {
			ev.Lost = nf != nil && nf.Kind == "drop_resp"
			for _, o := range w.wireTaps {
				o(ev)
			}
		}
	}
	if nf != nil && nf.Kind == "drop_resp" {
		w.fault("net_drop_response")
		rec.Err = ErrNetDropped.Error()
		return nil, ErrNetDropped
	}
	return resp, nil
}

// deliver hands one serialized request to the current server generation.
func (w *World) deliver(ctx context.Context, method, url string, hdr http.Header, body []byte) (*http.Response, []byte, error) {
	g := w.gen
	if g == nil || g.dead {
		return nil, nil, ErrCrashed
	}
	r2 := httptest.NewRequest(method, url, bytes.NewReader(body)).WithContext(ctx)
	for k, v := range hdr {
		r2.Header[k] = v
	}
	rr := httptest.NewRecorder()
	crashed := false
	aborted := false
	func() {
		defer func() {
			if r := recover(); r != nil {
				if _, ok := r.(crashPanic); ok {
					crashed = true
					return
				}
				if w.Cfg.Extra["recover_panics"] > 0 {
					// net/http recovers a panicking handler and drops the connection
					w.notePanic("handler", r, string(debug.Stack()))
					aborted = true
					return
				}
				panic(r)
			}
		}()
		g.handler.ServeHTTP(rr, r2)
	}()
	if crashed {
		return nil, nil, ErrCrashed
	}
	if aborted {
		return nil, nil, ErrNetDropped
	}
	if g.dead {
		return nil, nil, ErrCrashed // the process died while the request was in flight
	}
	resp := rr.Result()
	rb, _ := io.ReadAll(resp.Body)
	resp.Body = io.NopCloser(bytes.NewReader(rb))
	return resp, rb, nil
}

// DeliverHeld delivers a copy of an earlier request (a slow first attempt
// that arrives after the client gave up on it). Nobody reads the response.
func (w *World) DeliverHeld(i int) (proc string, status int, ok bool) {
	if len(w.held) == 0 {
		return "", 0, false
	}
	i = ((i % len(w.held)) + len(w.held)) % len(w.held)
	h := w.held[i]
	w.held = append(w.held[:i], w.held[i+1:]...)
	w.rpcSeq++
	ti := &taskInfo{name: fmt.Sprintf("rpc%d", w.rpcSeq), fg: true, rpc: w.rpcSeq}
	ctx := context.WithValue(w.ctx, taskKey, ti)
	rec := &RPCRecord{N: ti.rpc, Proc: h.Proc, Client: h.Client, Fault: "stale_duplicate"}
	if w.keepRPCs {
		rec.ReqBody = h.Body
	}
	w.curRPC = rec
	w.RPCs = append(w.RPCs, rec)
	defer func() { w.curRPC = nil }()
	w.fault("net_stale_duplicate_delivered")
	resp, rb, err := w.deliver(ctx, h.Method, h.URL, h.Header, h.Body)
	if err != nil {
		rec.Err = err.Error()
		return h.Proc, 0, true
	}
	rec.Status = resp.StatusCode
	if w.keepRPCs {
		rec.RespBody = rb
	}
	if len(w.wireTaps) > 0 {
		if ev := decodeWire(rec, h.Header, h.Body, resp.StatusCode, resp.Header, rb); ev != nil {
			ev.Stale, ev.Lost = true, true
			for _, o := range w.wireTaps {
				o(ev)
			}
		}
	}
	return h.Proc, resp.StatusCode, true
}

// ---------------------------------------------------------------------------
// storage seam

func bgTaskName(ctx context.Context) string {
	l := logging.From(ctx)
	if l == nil {
		return ""
	}
	n := l.Desugar().Name()
	if strings.HasPrefix(n, "b") && len(n) > 1 && n[1] >= '0' && n[1] <= '9' {
		return n
	}
	return ""
}

func (w *World) task(name string, fg bool) *taskInfo {
	w.mu.Lock()
	defer w.mu.Unlock()
	key := fmt.Sprintf("g%d/%s", w.gens, name)
	t := w.tasks[key]
	if t == nil {
		t = &taskInfo{name: key, fg: fg}
		w.tasks[key] = t
	}
	return t
}

type dbHooks struct {
	w *World
	g *serverGen
}

func argKey(args []any) string {
	var sb strings.Builder
	for _, a := range args {
		switch v := a.(type) {
		case types.DocRefKey:
			fmt.Fprintf(&sb, "%s;", v.DocID)
		case types.ClientRefKey:
			fmt.Fprintf(&sb, "%s;", v.ClientID)
		case types.ID:
			fmt.Fprintf(&sb, "%s;", v)
		case int64:
			fmt.Fprintf(&sb, "%d;", v)
		}
	}
	return sb.String()
}

func (h *dbHooks) Before(ctx context.Context, method string, args []any) (int, error) {
	w := h.w
	if h.g.dead {
		return 0, errDeadGen
	}
	ti, _ := ctx.Value(taskKey).(*taskInfo)
	if ti == nil {
		if name := bgTaskName(ctx); name != "" {
			ti = w.task(name, false)
		}
	}
	if ti == nil {
		// harness-internal call (oracle reads etc.): never faulted, never parked
		return -1, nil
	}
	w.mu.Lock()
	idx := ti.calls
	ti.calls++
	if ti.per == nil {
		ti.per = map[string]int{}
	}
	nth := ti.per[method]
	ti.per[method]++
	if ti.fg && ti.rec != nil {
		ti.rec.Calls = append(ti.rec.Calls, method)
	}
	var f *DBFault
	for i, p := range w.dbPlan {
		if p.matches(ti, method, idx, nth) {
			f = p
			if p.Mode == "err_before" || p.Mode == "crash_before" {
				w.dbPlan = append(w.dbPlan[:i], w.dbPlan[i+1:]...)
			}
			break
		}
	}
	if s := w.Sched; s != nil {
		// step-level engine: every storage call of every task is a yield point
		w.mu.Unlock()
		if !ti.fg {
			if name := bgTaskName(ctx); name != "" {
				if t := s.taskOfGoroutine(true); t != nil {
					s.mu.Lock()
					s.bgByName[name] = t
					s.mu.Unlock()
				}
			}
		}
		s.YieldHere("db:"+method, nil)
		if h.g.dead {
			return 0, errDeadGen
		}
		return idx, nil
	}
	park := false
	if !ti.fg && !w.Cfg.NoParking {
		// Background tasks run only when the scheduler says so. They park at
		// their first storage call (no document lock is held there) and
		// right before a snapshot is written (only the try-locked snapshot
		// key is held).
		if idx == 0 || method == "CreateSnapshotInfo" {
			park = true
		}
	}
	var pc *parkedCall
	if park {
		w.parkSeq++
		pc = &parkedCall{task: ti, method: method, key: argKey(args), seq: w.parkSeq, ch: make(chan error, 1)}
		w.parked = append(w.parked, pc)
	}
	w.mu.Unlock()
	if pc != nil {
		if err := <-pc.ch; err != nil {
			return 0, err
		}
		if h.g.dead {
			return 0, errDeadGen
		}
	}
	if f != nil {
		switch f.Mode {
		case "err_before":
			w.noteDBFault(method, f.Mode, ti)
			return 0, fmt.Errorf("%s: %w", method, ErrInjected)
		case "crash_before":
			w.noteDBFault(method, f.Mode, ti)
			h.crash()
		}
	}
	return idx, nil
}

func (w *World) noteDBFault(method, mode string, ti *taskInfo) {
	w.mu.Lock()
	defer w.mu.Unlock()
	w.Stats.Faults["db_"+mode]++
	if ti.fg && ti.rec != nil {
		ti.rec.DBFault = fmt.Sprintf("%s@%s", mode, method)
	}
	w.Stats.Probes["dbfault:"+mode+"@"+method]++
}

func (h *dbHooks) crash() {
	h.g.dead = true
	panic(crashPanic{gen: h.g.n})
}

func (h *dbHooks) After(ctx context.Context, method string, tok int, args []any, rets []any) error {
	w := h.w
	if tok < 0 {
		return nil
	}
	ti, _ := ctx.Value(taskKey).(*taskInfo)
	if ti == nil {
		if name := bgTaskName(ctx); name != "" {
			ti = w.task(name, false)
		}
	}
	if ti == nil {
		return nil
	}
	w.mu.Lock()
	if ti.fg && ti.rec != nil {
		ti.rec.Done = append(ti.rec.Done, method)
	}
	if len(ti.done) == 0 {
		w.allTasks = append(w.allTasks, ti)
	}
	ti.done = append(ti.done, method) // every task: requests, admin and housekeeping actions, background tasks
	w.mu.Unlock()
	if len(w.observers) > 0 {
		ev := DBEvent{Task: ti.name, FG: ti.fg, Method: method, Args: args, Rets: rets}
		w.mu.Lock()
		for _, o := range w.observers {
			o(ev)
		}
		w.mu.Unlock()
	}
	var f *DBFault
	w.mu.Lock()
	for i, p := range w.dbPlan {
		if p.matches(ti, method, tok, ti.per[method]-1) {
			if p.Mode == "err_after" || p.Mode == "crash_after" {
				f = p
				w.dbPlan = append(w.dbPlan[:i], w.dbPlan[i+1:]...)
			}
			break
		}
	}
	w.mu.Unlock()
	if f == nil {
		return nil
	}
	if realErr, _ := rets[len(rets)-1].(error); realErr != nil {
		// the call failed by itself: nothing took effect, let the real error through
		return nil
	}
	w.noteDBFault(method, f.Mode, ti)
	if f.Mode == "crash_after" {
		h.crash()
	}
	return fmt.Errorf("%s: %w", method, ErrInjected)
}

// Parked returns the parked background calls in a stable order.
func (w *World) Parked() []*parkedCall {
	w.mu.Lock()
	defer w.mu.Unlock()
	ps := append([]*parkedCall(nil), w.parked...)
	sort.SliceStable(ps, func(i, j int) bool {
		if ps[i].task.name != ps[j].task.name {
			return taskLess(ps[i].task.name, ps[j].task.name)
		}
		return ps[i].seq < ps[j].seq
	})
	return ps
}

func taskLess(a, b string) bool {
	if len(a) != len(b) {
		return len(a) < len(b)
	}
	return a < b
}

// ReleaseParked lets the i-th parked background call continue and waits
// until every goroutine is parked or finished again.
func (w *World) ReleaseParked(i int) bool {
	ps := w.Parked()
	if len(ps) == 0 {
		return false
	}
	i = ((i % len(ps)) + len(ps)) % len(ps)
	p := ps[i]
	w.mu.Lock()
	for k, q := range w.parked {
		if q == p {
			w.parked = append(w.parked[:k], w.parked[k+1:]...)
			break
		}
	}
	w.mu.Unlock()
	p.ch <- nil
	synctest.Wait()
	return true
}

var drainDebug = os.Getenv("VERIF_DRAIN_DEBUG") != ""

// DrainBackground runs every parked background task to completion.
func (w *World) DrainBackground() int {
	n := 0
	for len(w.Parked()) > 0 {
		if drainDebug {
			p := w.Parked()[0]
			w.DrainLog = append(w.DrainLog, p.task.name+":"+p.method)
		}
		w.ReleaseParked(0)
		n++
		if n > 10000 {
			panic("sim: background tasks never finish")
		}
	}
	return n
}

// RunFG runs one foreground action to completion. If it blocks (on a lock a
// parked background task holds, or on a timer) the scheduler first lets the
// background tasks run and then advances simulated time.
func (w *World) RunFG(f func()) (hung bool) {
	if w.Sched != nil {
		f() // already on a task goroutine of the step-level scheduler
		return false
	}
	done := make(chan struct{})
	var pv any
	var pstack string
	go func() {
		defer close(done)
		defer func() {
			if r := recover(); r != nil {
				pv = r
				pstack = string(debug.Stack())
			}
		}()
		f()
	}()
	for i := 0; ; i++ {
		synctest.Wait()
		select {
		case <-done:
			if pv != nil {
				if _, crash := pv.(crashPanic); !crash && w.Cfg.Extra["recover_panics"] > 0 {
					// hostile-bytes profile: what a panic means is judged at the end of
					// the run (a library call that panics, a handler net/http recovers);
					// the run goes on, because what counts is whether the SERVER survives
					w.notePanic("call", pv, pstack)
					return false
				}
				panic(pv)
			}
			return false
		default:
		}
		if len(w.Parked()) > 0 {
			w.probe("fg_blocked_behind_background")
			w.ReleaseParked(0)
			continue
		}
		if i > 200 {
			return true
		}
		gotime.Sleep(gotime.Second)
	}
}

// notePanic records a recovered panic (hostile-bytes profile).
func (w *World) notePanic(where string, pv any, stack string) {
	cls := where + ":" + panicClass2(trimStack(stack))
	w.mu.Lock()
	w.Panics = append(w.Panics, cls)
	w.PanicInfo = append(w.PanicInfo, fmt.Sprintf("%v\n%s", pv, trimStack(stack)))
	w.mu.Unlock()
	w.Stats.Probes["recovered_panic"]++
}

// inPushCheckpointWindow: is some request in flight that has stored its changes but not
// yet the client's checkpoint (finding push-checkpoint-atomicity)?
func (w *World) inPushCheckpointWindow() bool {
	w.mu.Lock()
	defer w.mu.Unlock()
	for _, rec := range w.RPCs {
		if rec.Status != 0 || rec.Err != "" {
			continue // answered
		}
		stored, acked := false, false
		for _, c := range rec.Done {
			if c == "CreateChangeInfos" {
				stored = true
			}
			if c == "UpdateClientInfoAfterPushPull" {
				acked = true
			}
		}
		if stored && !acked {
			return true
		}
	}
	// ... or a background task (the housekeeping pass detaching a silent client's document)
	for _, ti := range w.allTasks {
		lastStore, lastAck := -1, -1
		for i, c := range ti.done {
			if c == "CreateChangeInfos" {
				lastStore = i
			}
			if c == "UpdateClientInfoAfterPushPull" {
				lastAck = i
			}
		}
		if lastStore > lastAck {
			return true
		}
	}
	return false
}
