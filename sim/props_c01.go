package sim

import (
	"math/rand/v2"
)

// allKinds are the edit families of the public editing API.
var allKinds = []string{
	"create", "obj", "arr", "arrdel", "arrset", "arrmove", "nest", "text", "textdel", "style",
	"cnt", "dcnt", "tree", "treestyle",
}

// swarmKinds enables a random subset of edit families with random weights.
func swarmKinds(r *rand.Rand, from []string, always ...string) map[string]int {
	m := map[string]int{}
	for _, k := range from {
		if r.IntN(100) < 60 {
			m[k] = 1 + r.IntN(9)
		}
	}
	for _, k := range always {
		if m[k] == 0 {
			m[k] = 1 + r.IntN(5)
		}
	}
	if r.IntN(3) == 0 {
		m["utf16"] = 1
	}
	if r.IntN(2) == 0 {
		m["treepath"] = 1
	}
	return m
}

func swarmSteps(r *rand.Rand) int {
	switch r.IntN(10) {
	case 0, 1, 2, 3:
		return 20 + r.IntN(30)
	case 4, 5, 6:
		return 50 + r.IntN(50)
	case 7, 8:
		return 100 + r.IntN(50)
	default:
		return 150 + r.IntN(50)
	}
}

func baseWeights(r *rand.Rand) map[string]int {
	return map[string]int{
		"update":    30 + r.IntN(40),
		"sync":      10 + r.IntN(30),
		"push_only": r.IntN(4),
		"offline":   r.IntN(4),
		"reattach":  r.IntN(3),
		"bg":        r.IntN(6),
		"bgdrain":   r.IntN(3),
		"sleep":     r.IntN(3),
	}
}

func c01Config(lossy bool) func(r *rand.Rand) *RunConfig {
	return func(r *rand.Rand) *RunConfig {
		cfg := &RunConfig{
			Clients:           2 + r.IntN(4),
			Docs:              1,
			Projects:          1,
			Steps:             swarmSteps(r),
			SnapshotThreshold: pickN(r, []int64{500, 1000}),
			SnapshotInterval:  pickN(r, []int64{500, 1000}),
			SnapshotCacheSize: 10,
			Kinds:             swarmKinds(r, allKinds, "create"),
			W:                 baseWeights(r),
			Extra:             map[string]int{"late_attach_pct": 30 * r.IntN(2), "attach_presence": 50, "initial_root_pct": 10 * r.IntN(2)},
		}
		if r.IntN(3) == 0 {
			cfg.W["rejoin"] = 1
			cfg.W["vanish"] = 1
		}
		if lossy {
			cfg.FaultKinds = subset(r, []string{"drop_req", "drop_resp", "hold", "hold_only"})
			cfg.FaultRate = 50 + r.IntN(250)
			cfg.W["held"] = 2 + r.IntN(5)
		}
		applyKnownFindingSplits(r, cfg)
		return cfg
	}
}

func subset(r *rand.Rand, from []string) []string {
	var out []string
	for _, k := range from {
		if r.IntN(2) == 0 {
			out = append(out, k)
		}
	}
	if len(out) == 0 {
		out = append(out, from[r.IntN(len(from))])
	}
	return out
}

func sessionMonitors(prop string, server bool) func(rc *RunCtx) []Monitor {
	return func(rc *RunCtx) []Monitor {
		return []Monitor{
			&sessionTap{},
			&noFailMonitor{prop: prop},
			&cloneRootMonitor{prop: prop},
			&convergenceMonitor{prop: prop, server: server, midRun: true},
		}
	}
}

// sessionTap feeds what the session generator needs to know back to it and
// queues the recovery of clients whose attach/detach was hit by a fault.
type sessionTap struct{}

func (sessionTap) AfterStep(rc *RunCtx, i int, st *Step, res *StepResult) *Violation {
	s := rc.sess()
	if st.Op == "sync" {
		s.noteRPC(res)
	}
	if st.Op == "newclient" {
		delete(rc.Excluded, st.C)
	}
	return nil
}
func (sessionTap) Final(rc *RunCtx) *Violation { return nil }

func nontrivialSession(rc *RunCtx) bool {
	p := rc.W.Stats.Probes
	return p["final_replicas_compared"] > 0 && p["remote_change_applied"] > 0 && p["edit_applied"] >= 2
}

func init() {
	Register(&Profile{Name: "c01_faultfree", Property: "C01", Config: c01Config(false), Next: SessionNext,
		Monitors: sessionMonitors("C01", true), Nontrivial: nontrivialSession})
	Register(&Profile{Name: "c01_lossy", Property: "C01", Config: c01Config(true), Next: SessionNext,
		Monitors: sessionMonitors("C01", true), Nontrivial: nontrivialSession})
}
