package sim

import (
	"encoding/json"
	"fmt"
	"os"
	"path/filepath"
	"testing"
	"time"

	"github.com/yorkie-team/yorkie/pkg/document"
	yjson "github.com/yorkie-team/yorkie/pkg/document/json"
	"github.com/yorkie-team/yorkie/pkg/document/presence"
	"github.com/yorkie-team/yorkie/server/backend/database"
	"github.com/yorkie-team/yorkie/server/logging"
)

// WarmUp creates process-global, lazily initialised state outside any bubble
// (the zstd encoder owns a channel; created inside run 1's bubble it would
// kill run 2).
func WarmUp(t *testing.T) {
	data := make([]byte, 4096)
	for i := range data {
		data[i] = byte(i % 7)
	}
	c, err := database.CompressSnapshot(data)
	if err != nil {
		t.Fatal(err)
	}
	if _, err := database.DecompressSnapshot(c); err != nil {
		t.Fatal(err)
	}
	_ = logging.DefaultLogger()
	_ = logging.NewNamed("warm")
	d := document.New("warm")
	_ = d.Update(func(r *yjson.Object, p *presence.Presence) error {
		r.SetNewText("t").Edit(0, 0, "x")
		r.SetNewTree("r", *defaultTreeRoot(1))
		r.SetNewArray("a").AddInteger(1)
		return nil
	})
	_ = d.Marshal()
}

// ReplayDoc is the replay file format.
type ReplayDoc struct {
	Property  string     `json:"property"`
	Profile   string     `json:"profile"`
	Seed      uint64     `json:"seed"`
	Config    *RunConfig `json:"config"`
	Steps     []Step     `json:"steps"`
	Violation *Violation `json:"violation,omitempty"`
	Note      string     `json:"note,omitempty"`
}

// WriteReplay writes the replay file of a violating run and returns its path.
func WriteReplay(dir string, rr *RunResult) string {
	_ = os.MkdirAll(dir, 0o755)
	doc := &ReplayDoc{Property: rr.Property, Profile: rr.Profile, Seed: rr.Seed, Config: rr.Config, Steps: rr.Trace, Violation: rr.Violation}
	b, _ := json.MarshalIndent(doc, "", " ")
	name := fmt.Sprintf("%s-%s-%016x.json", rr.Property, rr.Profile, rr.Seed)
	p := filepath.Join(dir, name)
	if err := os.WriteFile(p, b, 0o644); err != nil {
		return ""
	}
	return p
}

// ReplayFile executes a replay file (no PRNG involved).
func ReplayFile(t *testing.T, path string, keepLog bool) *RunResult {
	b, err := os.ReadFile(path)
	if err != nil {
		t.Fatal(err)
	}
	var doc ReplayDoc
	if err := json.Unmarshal(b, &doc); err != nil {
		t.Fatal(err)
	}
	p := ProfileByName(doc.Profile)
	if p == nil {
		t.Fatalf("unknown profile %q", doc.Profile)
	}
	rr := RunOne(t, p, RunOpts{Seed: doc.Seed, Config: doc.Config, Trace: doc.Steps, Replay: true, KeepLog: keepLog})
	rr.Expected = doc.Violation
	return rr
}

func sameViolation(a, b *Violation) bool {
	if a == nil || b == nil {
		return false
	}
	return a.Oracle == b.Oracle && a.Class == b.Class
}

// Minimise shrinks the step list of a violating run while the same oracle
// fails with the same class, bounded by wall time. Every candidate is a
// complete re-execution in a fresh bubble.
func Minimise(t *testing.T, p *Profile, rr *RunResult, budgetSec int) *RunResult {
	return MinimiseN(t, p, rr, budgetSec, 0)
}

// MinimiseN bounds the search by a number of candidate executions as well (0 = no bound).
// The wall-clock bound is a backstop only: when it ends the search, the result says so
// (MinIncomplete) and the driver goes on minimising before it judges the trace.
func MinimiseN(t *testing.T, p *Profile, rr *RunResult, budgetSec, maxCand int) *RunResult {
	if budgetSec <= 0 {
		budgetSec = 60
	}
	cands := 0
	timedOut := false
	deadline := time.Now().Add(time.Duration(budgetSec) * time.Second)
	want := rr.Violation
	best := rr
	cfg := rr.Config
	// the generated run and its replay must agree before anything else
	first := RunOne(t, p, RunOpts{Seed: rr.Seed, Config: cfg, Trace: rr.Trace, Replay: true})
	if !sameViolation(first.Violation, want) {
		rr.Infra = fmt.Sprintf("replay of the recorded trace does not reproduce the violation (got %v)", first.Violation)
		return rr
	}
	best = first
	best.OrigSteps = len(rr.Trace)
	stop := func() bool {
		if maxCand > 0 && cands >= maxCand {
			return true
		}
		if time.Now().After(deadline) {
			timedOut = true
			return true
		}
		return false
	}
	try := func(tr []Step) bool {
		if stop() {
			return false
		}
		cands++
		c := RunOne(t, p, RunOpts{Seed: rr.Seed, Config: cfg, Trace: tr, Replay: true})
		if sameViolation(c.Violation, want) {
			c.OrigSteps = len(rr.Trace)
			best = c
			return true
		}
		return false
	}
	// truncate after the failing step
	if best.Violation.Step+1 < len(best.Trace) {
		try(append([]Step(nil), best.Trace[:best.Violation.Step+1]...))
	}
	// ddmin over steps
	n := 2
	for len(best.Trace) >= 2 && !stop() {
		tr := best.Trace
		chunk := (len(tr) + n - 1) / n
		reduced := false
		for s := 0; s < len(tr); s += chunk {
			e := s + chunk
			if e > len(tr) {
				e = len(tr)
			}
			cand := append(append([]Step(nil), tr[:s]...), tr[e:]...)
			if len(cand) == 0 {
				continue
			}
			if try(cand) {
				reduced = true
				if n > 2 {
					n--
				}
				break
			}
		}
		if !reduced {
			if chunk == 1 {
				break
			}
			n *= 2
			if n > len(tr) {
				n = len(tr)
			}
		}
	}
	// simplify the steps that are left: drop faults, drop single edits
	for changed := true; changed && !stop(); {
		changed = false
		for i := 0; i < len(best.Trace); i++ { // best shrinks while we go (an accepted candidate ends at its violating step)
			st := best.Trace[i]
			if st.Net != "" || st.DB != nil {
				cand := append([]Step(nil), best.Trace...)
				cand[i].Net, cand[i].DB = "", nil
				if try(cand) {
					changed = true
					continue
				}
			}
			if len(st.Sub) > 1 {
				// parallel section: drop one concurrent call at a time (the schedule of
				// the section is a function of its seed and what is left)
				dropped := false
				for k := range st.Sub {
					cand := append([]Step(nil), best.Trace...)
					cand[i].Sub = append(append([]Step(nil), st.Sub[:k]...), st.Sub[k+1:]...)
					if try(cand) {
						changed, dropped = true, true
						break
					}
				}
				if dropped {
					continue
				}
			}
			if len(st.Edits) > 1 {
				for k := range st.Edits {
					cand := append([]Step(nil), best.Trace...)
					ne := append(append([]Edit(nil), st.Edits[:k]...), st.Edits[k+1:]...)
					cand[i].Edits = ne
					if try(cand) {
						changed = true
						break
					}
				}
			}
		}
	}
	// final confirmation in a fresh run
	final := RunOne(t, p, RunOpts{Seed: rr.Seed, Config: cfg, Trace: best.Trace, Replay: true})
	if !sameViolation(final.Violation, want) {
		best.Infra = "minimised trace is not stable"
	}
	best.MinIncomplete = timedOut
	best.MinCandidates = cands
	return best
}
