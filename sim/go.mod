module verifsim

go 1.25.0

require (
	connectrpc.com/connect v1.19.1
	github.com/anishathalye/porcupine v1.3.0
	github.com/hashicorp/go-memdb v1.3.5
	github.com/stretchr/testify v1.11.1
	github.com/yorkie-team/yorkie v0.0.0
	go.uber.org/zap v1.27.1
	google.golang.org/protobuf v1.36.10
)

require (
	connectrpc.com/grpchealth v1.4.0 // indirect
	filippo.io/edwards25519 v1.1.0 // indirect
	github.com/beorn7/perks v1.0.1 // indirect
	github.com/cespare/xxhash/v2 v2.3.0 // indirect
	github.com/davecgh/go-spew v1.1.2-0.20180830191138-d8f796af33cc // indirect
	github.com/gabriel-vasile/mimetype v1.4.11 // indirect
	github.com/go-co-op/gocron/v2 v2.18.2 // indirect
	github.com/go-playground/locales v0.14.1 // indirect
	github.com/go-playground/universal-translator v0.18.1 // indirect
	github.com/go-playground/validator/v10 v10.28.0 // indirect
	github.com/go-sql-driver/mysql v1.9.3 // indirect
	github.com/golang-jwt/jwt/v5 v5.3.0 // indirect
	github.com/golang/snappy v1.0.0 // indirect
	github.com/google/btree v1.1.3 // indirect
	github.com/google/uuid v1.6.0 // indirect
	github.com/hashicorp/go-immutable-radix v1.3.1 // indirect
	github.com/hashicorp/golang-lru v1.0.2 // indirect
	github.com/hashicorp/golang-lru/v2 v2.0.7 // indirect
	github.com/jonboulle/clockwork v0.5.0 // indirect
	github.com/klauspost/compress v1.18.4 // indirect
	github.com/leodido/go-urn v1.4.0 // indirect
	github.com/lithammer/shortuuid/v4 v4.2.0 // indirect
	github.com/munnerz/goautoneg v0.0.0-20191010083416-a7dc8b61c822 // indirect
	github.com/pierrec/lz4/v4 v4.1.22 // indirect
	github.com/pmezard/go-difflib v1.0.1-0.20181226105442-5d4384ee4fb2 // indirect
	github.com/prometheus/client_golang v1.23.2 // indirect
	github.com/prometheus/client_model v0.6.2 // indirect
	github.com/prometheus/common v0.67.4 // indirect
	github.com/prometheus/procfs v0.19.2 // indirect
	github.com/robfig/cron/v3 v3.0.1 // indirect
	github.com/rs/cors v1.11.1 // indirect
	github.com/rs/xid v1.6.0 // indirect
	github.com/segmentio/kafka-go v0.4.49 // indirect
	github.com/xdg-go/scram v1.2.0 // indirect
	github.com/xdg-go/stringprep v1.0.4 // indirect
	github.com/youmark/pkcs8 v0.0.0-20240726163527-a2c0da244d78 // indirect
	go.mongodb.org/mongo-driver/v2 v2.4.0 // indirect
	go.uber.org/multierr v1.11.0 // indirect
	go.yaml.in/yaml/v2 v2.4.3 // indirect
	golang.org/x/crypto v0.45.0 // indirect
	golang.org/x/net v0.47.0 // indirect
	golang.org/x/oauth2 v0.33.0 // indirect
	golang.org/x/sync v0.18.0 // indirect
	golang.org/x/sys v0.38.0 // indirect
	golang.org/x/text v0.31.0 // indirect
	google.golang.org/genproto/googleapis/rpc v0.0.0-20251202230838-ff82c1b0f217 // indirect
	gopkg.in/yaml.v3 v3.0.1 // indirect
)

replace github.com/yorkie-team/yorkie => /repo

replace github.com/hashicorp/go-memdb => github.com/hackerwins/go-memdb v1.3.3-0.20211225080334-513a74641622
