package sim

import (
	"fmt"
	"math/rand/v2"
	"sync"

	"github.com/stretchr/testify/assert"

	"github.com/yorkie-team/yorkie/pkg/attachable"
	yjson "github.com/yorkie-team/yorkie/pkg/document/json"
	"github.com/yorkie-team/yorkie/pkg/document/presence"
)

// The pair matrices are upstream's (extracted from the current tree by
// tools/genc19.py): RunTestTreeConcurrency is called by the five
// TestTreeConcurrency* functions with their ranges and operation lists; here
// it only records the cells. Each cell is then one simulated run.

type c19Cell struct {
	family  string
	initial yjson.TreeNode
	xml     string
	ranges  twoRangesType
	op1     operationInterface
	op2     operationInterface
}

// CurrentIndex is the index of the run inside its batch (set by the worker).
var CurrentIndex = -1

var (
	c19Once  sync.Once
	c19Cells []c19Cell
)

// RunTestTreeConcurrency has the signature upstream's test functions expect.
func RunTestTreeConcurrency(testDesc string, t assert.TestingT, initialState yjson.TreeNode, initialXML string,
	rangesArr []twoRangesType, opArr1, opArr2 []operationInterface) {
	for _, r := range rangesArr {
		for _, o1 := range opArr1 {
			for _, o2 := range opArr2 {
				c19Cells = append(c19Cells, c19Cell{testDesc, initialState, initialXML, r, o1, o2})
			}
		}
	}
}

type assertSink struct{ msgs []string }

func (a *assertSink) Errorf(format string, args ...interface{}) {
	a.msgs = append(a.msgs, fmt.Sprintf(format, args...))
}

func c19Load() {
	c19Once.Do(func() {
		sink := &assertSink{}
		TestTreeConcurrencyEditEdit(sink)
		TestTreeConcurrencySplitSplit(sink)
		TestTreeConcurrencySplitEdit(sink)
		TestTreeConcurrencyStyleStyle(sink)
		TestTreeConcurrencyEditStyle(sink)
	})
}

func (c *c19Cell) name() string {
	return fmt.Sprintf("%s-%s(%s,%s)", c.family, c.ranges.desc, c.op1.getDesc(), c.op2.getDesc())
}

// execC19 runs the two concurrent edits of one cell on clients 0 and 1.
func (w *World) execC19(st *Step) (res StepResult) {
	c19Load()
	if len(c19Cells) == 0 {
		return StepResult{Out: "skip"}
	}
	cell := &c19Cells[mod(st.I, len(c19Cells))]
	res.Out = "ok"
	switch st.Flag {
	case "init":
		sd := w.Client(0).Docs[0]
		err := sd.Doc.Update(func(root *yjson.Object, p *presence.Presence) error {
			root.SetNewTree("t", cell.initial)
			return nil
		})
		res.Err = err
		if err != nil {
			res.Out = "err"
		}
	case "ops":
		// upstream's merge helper is vacuous since Go 1.22 (see tools/genc19.py); D=1 runs the
		// cell with the tokeniser it was meant to have
		c19RepairMerge = st.D == 1
		defer func() { c19RepairMerge = false }()
		for user, op := range []operationInterface{cell.op1, cell.op2} {
			// user selects the operation's range (upstream's convention); the AUTHOR is
			// client user, or with J=1 the other one (then the second operation is made by
			// the client with the smaller id)
			sd := w.Client(user ^ (st.J & 1)).Docs[0]
			sink := &assertSink{}
			if got := sd.Doc.Root().GetTree("t").ToXML(); got != cell.xml {
				res.Out = "err"
				res.Err = fmt.Errorf("client %d starts from %s, expected %s", user, got, cell.xml)
				return res
			}
			op.run(sink, sd.Doc, user, cell.ranges)
			if len(sink.msgs) > 0 {
				res.Out = "err"
				res.Err = fmt.Errorf("client %d %s: %s", user, op.getDesc(), sink.msgs[0])
				return res
			}
		}
		w.probe("c19_pair_executed")
	case "third":
		// the passive third client, fed by snapshot, then edits on top of it
		sd := w.Client(2).Docs[0]
		if sd == nil || sd.Doc.Status() != attachable.StatusAttached {
			return StepResult{Out: "skip"}
		}
		err := sd.Doc.Update(func(root *yjson.Object, p *presence.Presence) error {
			t := root.GetTree("t")
			if t == nil || t.Len() == 0 {
				return nil
			}
			t.Edit(0, 0, &yjson.TreeNode{Type: "p", Children: []yjson.TreeNode{{Type: "text", Value: "Z"}}}, 0)
			return nil
		})
		res.Err = err
		if err != nil {
			res.Out = "err"
		}
	}
	return res
}

type c19Monitor struct{ prop string }

func (m *c19Monitor) AfterStep(rc *RunCtx, i int, st *Step, res *StepResult) *Violation {
	if st.Op == "attach" && st.C == 2 && res.RPC != nil {
		// reach probe: was the third client really fed by a snapshot?
		for _, c := range res.RPC.Calls {
			if c == "GetMinVersionVector" || c == "FindClosestSnapshotInfo" {
				rc.W.probe("c19_third_client_snapshot_fed")
				break
			}
		}
	}
	if st.Op == "sync" && res.Err == nil {
		// equal vectors, different trees: reported here (before the generic convergence
		// monitor) so that the violation names the cell
		if v := m.compare(rc, i, true); v != nil {
			return v
		}
	}
	if st.Op == "c19" && res.Err != nil {
		cell := &c19Cells[mod(st.I, len(c19Cells))]
		return &Violation{Property: m.prop, Oracle: "pair_edits_apply", Class: "c19_edit_failed:" + st.Flag, Detail: cell.name() + ": " + res.Err.Error(), Step: i}
	}
	return nil
}

func (m *c19Monitor) Final(rc *RunCtx) *Violation { return m.compare(rc, rc.I, false) }

// compare: tree XML equality on top of the byte equality of the convergence monitor;
// sameVector restricts it to replicas that hold the same version vector (mid-run).
func (m *c19Monitor) compare(rc *RunCtx, i int, sameVector bool) *Violation {
	refs := map[string]string{}
	for _, sc := range rc.AttachedReplicas(0) {
		t := sc.Docs[0].Doc.Root().GetTree("t")
		if t == nil {
			continue
		}
		key := ""
		if sameVector {
			key = sc.Docs[0].Doc.VersionVector().Marshal()
		}
		x := t.ToXML()
		if ref, ok := refs[key]; !ok {
			refs[key] = x
		} else if x != ref {
			cell := &c19Cells[mod(rc.Cfg.Extra["cell"], len(c19Cells))]
			return &Violation{Property: m.prop, Oracle: "pair_converges", Class: "tree_xml_diverged", Detail: fmt.Sprintf("%s: %s vs client %d %s", cell.name(), ref, sc.Idx, x), Step: i}
		}
		if !sameVector {
			rc.W.probe("c19_xml_compared")
		}
	}
	return nil
}

func c19Config(r *rand.Rand) *RunConfig {
	c19Load()
	n := len(c19Cells)
	if n == 0 {
		n = 1
	}
	cell, order, swap, repair := r.IntN(n), r.IntN(2), r.IntN(2), r.IntN(2)
	if CurrentIndex >= 0 {
		repair = (CurrentIndex / (4 * n)) % 2
		// the matrix is swept by run index: every cell, both sync orders, and both
		// assignments of the two operations to the two clients (the operations carry equal
		// lamports, so the AUTHOR decides which one is later: upstream's test leaves that to
		// random actor ids, here client 0's id is always the smaller one)
		cell, order, swap = CurrentIndex%n, (CurrentIndex/n)%2, (CurrentIndex/(2*n))%2
	}
	return &RunConfig{Clients: 3, Docs: 1, Projects: 1, Steps: 16, SnapshotThreshold: 4, SnapshotInterval: 1000, SnapshotCacheSize: 10,
		Extra: map[string]int{"cell": cell, "order": order, "cells": n, "swap": swap, "repair_merge": repair}}
}

// c19Next is a fixed script: the cell and the sync order are the only choices.
func c19Next(rc *RunCtx) *Step {
	cell, order := rc.Cfg.Extra["cell"], rc.Cfg.Extra["order"]
	a, b := 0, 1
	if order == 1 {
		a, b = 1, 0
	}
	script := []Step{
		{Op: "activate", C: 0}, {Op: "activate", C: 1}, {Op: "activate", C: 2},
		{Op: "attach", C: 0, Opts: &AttachOp{}}, {Op: "attach", C: 1, Opts: &AttachOp{}},
		{Op: "c19", Flag: "init", I: cell}, {Op: "sync", C: 0}, {Op: "sync", C: 1},
		{Op: "c19", Flag: "ops", I: cell, J: rc.Cfg.Extra["swap"], D: rc.Cfg.Extra["repair_merge"]},
		{Op: "sync", C: a}, {Op: "sync", C: b}, {Op: "sync", C: a},
		{Op: "attach", C: 2, Opts: &AttachOp{}}, // five changes behind a threshold of four: fed by snapshot
		{Op: "c19", Flag: "third", I: cell},
		{Op: "sync", C: 2}, {Op: "sync", C: a},
	}
	if rc.I >= len(script) {
		return nil
	}
	st := script[rc.I]
	return &st
}

func c19Monitors(rc *RunCtx) []Monitor {
	return []Monitor{
		&noFailMonitor{prop: "C19"},
		&c19Monitor{prop: "C19"},
		&cloneRootMonitor{prop: "C19"},
		&convergenceMonitor{prop: "C19", server: true, midRun: true},
	}
}

func init() {
	Register(&Profile{Name: "c19_matrix", Property: "C19", Config: c19Config, Next: c19Next, Monitors: c19Monitors,
		Nontrivial: func(rc *RunCtx) bool {
			return rc.W.Stats.Probes["c19_pair_executed"] > 0 && rc.W.Stats.Probes["c19_xml_compared"] >= 2
		}})
}
